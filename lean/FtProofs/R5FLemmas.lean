/-
  FtProofs.R5FLemmas — helper lemmas for package R5F: the faithful model of the IoU code paths
  (`FtModel/IouFaithful.lean`) and its equivalence with the per-edge model of `FtModel/Annot.lean`.

  Sections
    1. lexicographic sort / adjacent de-duplication (`sortPairs`, `dedupAdj`)
    2. specification of `computeIous`
    3. counts on frames extracted from a `Seg` (`frameAt`) vs `interCount` / `maskCount`
    4. "write lists": a run of `setEdgeAttr` calls as a list of (edge, value) writes
    5. `_iou_update` as a write list and its specification
    6. grouping of the edges by frame pair
    7. bulk: faithful = per-edge model
    8. incremental: masked value = `iouOf`
-/
import FtModel.IouFaithful
import FtProofs.SegLemmas
import FtProofs.Props.C09
namespace Ft.R5F
open Ft Ft.St Ft.IouF List

/-! ### 1. sort / dedup -/

def PLe (a b : Nat × Nat) : Prop := a.1 < b.1 ∨ (a.1 = b.1 ∧ a.2 ≤ b.2)
def PLt (a b : Nat × Nat) : Prop := a.1 < b.1 ∨ (a.1 = b.1 ∧ a.2 < b.2)

instance (a b : Nat × Nat) : Decidable (PLe a b) := by unfold PLe; infer_instance
instance (a b : Nat × Nat) : Decidable (PLt a b) := by unfold PLt; infer_instance

theorem pairLe_iff (a b : Nat × Nat) : pairLe a b = true ↔ PLe a b := by
  simp [pairLe, PLe]

theorem PLe.trans {a b c : Nat × Nat} (h1 : PLe a b) (h2 : PLe b c) : PLe a c := by
  unfold PLe at *; omega

theorem PLe.total (a b : Nat × Nat) : PLe a b ∨ PLe b a := by
  unfold PLe; omega

theorem PLt.irrefl (a : Nat × Nat) : ¬ PLt a a := by
  unfold PLt; omega

theorem PLt_of_PLe_ne {a b : Nat × Nat} (h : PLe a b) (hne : a ≠ b) : PLt a b := by
  have : ¬ (a.1 = b.1 ∧ a.2 = b.2) := fun e => hne (Prod.ext e.1 e.2)
  unfold PLe at h; unfold PLt; omega

theorem PLt_of_PLt_PLe {a b c : Nat × Nat} (h1 : PLt a b) (h2 : PLe b c) : PLt a c := by
  unfold PLe PLt at *; omega

theorem mem_insertPair {x z : Nat × Nat} {l : List (Nat × Nat)} :
    z ∈ insertPair x l ↔ z = x ∨ z ∈ l := by
  induction l with
  | nil => simp [insertPair]
  | cons y ys ih =>
    unfold insertPair
    split
    · simp
    · simp only [List.mem_cons, ih]
      constructor
      · rintro (h | h | h)
        · exact Or.inr (Or.inl h)
        · exact Or.inl h
        · exact Or.inr (Or.inr h)
      · rintro (h | h | h)
        · exact Or.inr (Or.inl h)
        · exact Or.inl h
        · exact Or.inr (Or.inr h)

theorem mem_sortPairs {z : Nat × Nat} {l : List (Nat × Nat)} : z ∈ sortPairs l ↔ z ∈ l := by
  induction l with
  | nil => simp [sortPairs]
  | cons y ys ih =>
    have : sortPairs (y :: ys) = insertPair y (sortPairs ys) := rfl
    rw [this, mem_insertPair, ih, List.mem_cons]

theorem insertPair_sorted {x : Nat × Nat} {l : List (Nat × Nat)} (h : l.Pairwise PLe) :
    (insertPair x l).Pairwise PLe := by
  induction l with
  | nil => simp [insertPair]
  | cons y ys ih =>
    rw [List.pairwise_cons] at h
    unfold insertPair
    split
    · rename_i hle
      have hle' := (pairLe_iff _ _).mp hle
      refine List.Pairwise.cons ?_ (List.Pairwise.cons h.1 h.2)
      intro z hz
      rcases List.mem_cons.mp hz with rfl | hz
      · exact hle'
      · exact hle'.trans (h.1 z hz)
    · rename_i hle
      have hle' : ¬ PLe x y := fun e => hle ((pairLe_iff _ _).mpr e)
      refine List.Pairwise.cons ?_ (ih h.2)
      intro z hz
      rcases mem_insertPair.mp hz with rfl | hz
      · rcases PLe.total y z with h' | h'
        · exact h'
        · exact absurd h' hle'
      · exact h.1 z hz

theorem sortPairs_sorted (l : List (Nat × Nat)) : (sortPairs l).Pairwise PLe := by
  induction l with
  | nil => simp [sortPairs]
  | cons y ys ih => exact insertPair_sorted ih

theorem mem_dedupAdj : ∀ {l : List (Nat × Nat)} {z : Nat × Nat}, z ∈ dedupAdj l ↔ z ∈ l
  | [], z => by simp [dedupAdj]
  | [x], z => by simp [dedupAdj]
  | x :: y :: r, z => by
    have ih := @mem_dedupAdj (y :: r) z
    unfold dedupAdj
    split
    · rename_i hxy
      have hxy' : x = y := by simpa using hxy
      rw [ih, hxy']
      simp
    · rw [List.mem_cons, ih, List.mem_cons (a := z) (b := x)]

theorem dedupAdj_sorted : ∀ {l : List (Nat × Nat)}, l.Pairwise PLe → (dedupAdj l).Pairwise PLt
  | [], _ => by simp [dedupAdj]
  | [x], _ => by simp [dedupAdj]
  | x :: y :: r, h => by
    rw [List.pairwise_cons] at h
    have ih := dedupAdj_sorted h.2
    unfold dedupAdj
    split
    · exact ih
    · rename_i hxy
      have hxy' : x ≠ y := by simpa using hxy
      refine List.Pairwise.cons ?_ ih
      intro z hz
      have hz' : z ∈ y :: r := mem_dedupAdj.mp hz
      have hxy2 : PLt x y := PLt_of_PLe_ne (h.1 y (List.mem_cons_self)) hxy'
      rcases List.mem_cons.mp hz' with rfl | hzr
      · exact hxy2
      · exact PLt_of_PLt_PLe hxy2 ((List.pairwise_cons.mp h.2).1 z hzr)

theorem nodup_of_sorted_lt {l : List (Nat × Nat)} (h : l.Pairwise PLt) : l.Nodup := by
  refine List.Pairwise.imp ?_ h
  intro a b hab e
  subst e
  exact PLt.irrefl a hab

/-! ### 2. specification of `computeIous` -/

theorem mem_nzPairs {f1 f2 : List Nat} {p : Nat × Nat} :
    p ∈ nzPairs f1 f2 ↔ p ∈ f1.zip f2 ∧ p.1 ≠ 0 ∧ p.2 ≠ 0 := by
  simp [nzPairs]

theorem count_nzPairs {f1 f2 : List Nat} {p : Nat × Nat} (h1 : p.1 ≠ 0) (h2 : p.2 ≠ 0) :
    (nzPairs f1 f2).count p = (f1.zip f2).count p := by
  unfold nzPairs
  apply List.count_filter
  simp [h1, h2]

/-- the pair list of `computeIous` -/
def pairsOf (l : List (Nat × Nat × Nat × Nat)) : List (Nat × Nat) := l.map (fun q => (q.1, q.2.1))

theorem pairsOf_computeIous (f1 f2 : List Nat) :
    pairsOf (computeIous f1 f2) = dedupAdj (sortPairs (nzPairs f1 f2)) := by
  simp only [pairsOf, computeIous, List.map_map]
  conv => rhs; rw [← List.map_id (dedupAdj (sortPairs (nzPairs f1 f2)))]
  apply List.map_congr_left
  intro p _
  rfl

/-- `np.unique(axis=1)` order: the triples come sorted strictly lexicographically by `(id1, id2)` -/
theorem computeIous_sorted (f1 f2 : List Nat) : (pairsOf (computeIous f1 f2)).Pairwise PLt := by
  rw [pairsOf_computeIous]
  exact dedupAdj_sorted (sortPairs_sorted _)

theorem computeIous_nodup (f1 f2 : List Nat) : (pairsOf (computeIous f1 f2)).Nodup :=
  nodup_of_sorted_lt (computeIous_sorted f1 f2)

/-- membership specification of `_compute_ious` -/
theorem mem_computeIous {f1 f2 : List Nat} {a b i u : Nat} :
    (a, b, i, u) ∈ computeIous f1 f2 ↔
      a ≠ 0 ∧ b ≠ 0 ∧ i = (f1.zip f2).count (a, b) ∧ 0 < i ∧ u = f1.count a + f2.count b - i := by
  unfold computeIous
  simp only [List.mem_map]
  constructor
  · rintro ⟨p, hp, heq⟩
    have hp' : p ∈ nzPairs f1 f2 := mem_sortPairs.mp (mem_dedupAdj.mp hp)
    obtain ⟨hz, h1, h2⟩ := mem_nzPairs.mp hp'
    simp only [Prod.mk.injEq] at heq
    obtain ⟨ha, hb, hi, hu⟩ := heq
    have hpe : p = (a, b) := Prod.ext ha hb
    subst hpe
    rw [count_nzPairs h1 h2] at hi hu
    refine ⟨h1, h2, hi.symm, ?_, ?_⟩
    · rw [← hi]; exact List.count_pos_iff.mpr hz
    · rw [← hu, ← hi]
  · rintro ⟨h1, h2, hi, hpos, hu⟩
    have hz : (a, b) ∈ f1.zip f2 := by
      rw [hi] at hpos; exact List.count_pos_iff.mp hpos
    refine ⟨(a, b), mem_dedupAdj.mpr (mem_sortPairs.mpr (mem_nzPairs.mpr ⟨hz, h1, h2⟩)), ?_⟩
    simp only [Prod.mk.injEq, true_and]
    rw [count_nzPairs (p := (a, b)) h1 h2]
    exact ⟨hi.symm, by rw [hu, hi]⟩

/-! ### 3. counts on frames of a `Seg` -/

theorem zip_frameAt_count (g : Seg) (t1 t2 a b : Nat) :
    ((g.frameAt t1).zip (g.frameAt t2)).count (a, b) = interCount g t1 t2 a b := by
  unfold Seg.frameAt interCount
  rw [List.zip_map', List.count_eq_countP, List.countP_map]
  rfl

theorem frameAt_count (g : Seg) (t a : Nat) : (g.frameAt t).count a = maskCount g t a := by
  unfold Seg.frameAt maskCount
  rw [List.count_eq_countP, List.countP_map]
  rfl

/-- the value the per-edge model stores, as a function of the two frames -/
def trueVal (g : Seg) (t1 t2 : Nat) (e : Edge) : Val :=
  if interCount g t1 t2 e.1 e.2 = 0 then Val.zero
  else Val.iou (interCount g t1 t2 e.1 e.2)
         (maskCount g t1 e.1 + maskCount g t2 e.2 - interCount g t1 t2 e.1 e.2)

theorem iouOf_eq_trueVal {s : St} {g : Seg} {e : Edge} {t1 t2 : Nat} (hg : s.seg = some g)
    (h1 : s.timeOf e.1 = some t1) (h2 : s.timeOf e.2 = some t2) :
    s.iouOf e = trueVal g t1 t2 e := C09_value s g e t1 t2 hg h1 h2

/-- a triple of `computeIous` on two frames of `g` carries the true counts -/
theorem mem_computeIous_frameAt {g : Seg} {t1 t2 a b i u : Nat} :
    (a, b, i, u) ∈ computeIous (g.frameAt t1) (g.frameAt t2) ↔
      a ≠ 0 ∧ b ≠ 0 ∧ i = interCount g t1 t2 a b ∧ 0 < i ∧
      u = maskCount g t1 a + maskCount g t2 b - i := by
  rw [mem_computeIous, zip_frameAt_count, frameAt_count, frameAt_count]

/-! ### 4. write lists -/

/-- a run of `_set_edge_attr(edge, key, value)` calls -/
def applyWrites (s : St) (k : Key) (ws : List (Edge × Val)) : St :=
  ws.foldl (fun st w => st.setEdgeAttr w.1 k w.2) s

theorem applyWrites_nil (s : St) (k : Key) : applyWrites s k [] = s := rfl

theorem applyWrites_cons (s : St) (k : Key) (w : Edge × Val) (ws : List (Edge × Val)) :
    applyWrites s k (w :: ws) = applyWrites (s.setEdgeAttr w.1 k w.2) k ws := rfl

theorem applyWrites_append (s : St) (k : Key) (ws ws' : List (Edge × Val)) :
    applyWrites s k (ws ++ ws') = applyWrites (applyWrites s k ws) k ws' := by
  simp [applyWrites, List.foldl_append]

/-- first write to edge `e` in the list -/
def wlook (e : Edge) : List (Edge × Val) → Option Val
  | [] => none
  | w :: r => if w.1 = e then some w.2 else wlook e r

def updRec (k : Key) (ws : List (Edge × Val)) (r : EdgeRec) : EdgeRec :=
  match wlook r.e ws with
  | some v => { r with attrs := aset k v r.attrs }
  | none => r

theorem wlook_none {e : Edge} {ws : List (Edge × Val)} (h : e ∉ ws.map (·.1)) : wlook e ws = none := by
  induction ws with
  | nil => rfl
  | cons w r ih =>
    simp only [List.map_cons, List.mem_cons, not_or] at h
    simp only [wlook]
    rw [if_neg (fun e' => h.1 e'.symm)]
    exact ih h.2

theorem wlook_of_mem {e : Edge} {v : Val} {ws : List (Edge × Val)} (hnd : (ws.map (·.1)).Nodup)
    (h : (e, v) ∈ ws) : wlook e ws = some v := by
  induction ws with
  | nil => cases h
  | cons w r ih =>
    simp only [List.map_cons, List.nodup_cons] at hnd
    simp only [wlook]
    rcases List.mem_cons.mp h with h' | h'
    · subst h'; simp
    · have hne : w.1 ≠ e := by
        intro e'
        apply hnd.1
        rw [e']
        exact List.mem_map.mpr ⟨(e, v), h', rfl⟩
      rw [if_neg hne]
      exact ih hnd.2 h'

/-- a write list with distinct keys, keys = `E`, values given by `V`, is the function `V` on `E` -/
theorem wlook_spec {ws : List (Edge × Val)} {E : List Edge} {V : Edge → Val}
    (hnd : (ws.map (·.1)).Nodup) (hmem : ∀ e, e ∈ ws.map (·.1) ↔ e ∈ E)
    (hval : ∀ w ∈ ws, w.2 = V w.1) (e : Edge) :
    wlook e ws = if e ∈ E then some (V e) else none := by
  by_cases he : e ∈ E
  · rw [if_pos he]
    obtain ⟨w, hw, hwe⟩ := List.mem_map.mp ((hmem e).mpr he)
    have : w = (e, V e) := by
      apply Prod.ext
      · exact hwe
      · rw [hval w hw, hwe]
    rw [this] at hw
    exact wlook_of_mem hnd hw
  · rw [if_neg he]
    exact wlook_none (fun h => he ((hmem e).mp h))

theorem applyWrites_eq (s : St) (k : Key) (ws : List (Edge × Val)) (hnd : (ws.map (·.1)).Nodup) :
    applyWrites s k ws = { s with edges := s.edges.map (updRec k ws) } := by
  induction ws generalizing s with
  | nil =>
    have : (updRec k []) = id := by funext r; rfl
    rw [this, List.map_id]
    rfl
  | cons w ws ih =>
    simp only [List.map_cons, List.nodup_cons] at hnd
    rw [applyWrites_cons, ih _ hnd.2]
    simp only [setEdgeAttr, List.map_map]
    congr 1
    apply List.map_congr_left
    intro r _
    simp only [Function.comp]
    by_cases hre : r.e = w.1
    · have h1 : (r.e == w.1) = true := by simpa using hre
      rw [if_pos h1]
      have h2 : wlook w.1 ws = none := wlook_none hnd.1
      simp only [updRec, wlook, hre, h2, if_true]
    · have h1 : (r.e == w.1) = false := by simpa using hre
      rw [h1]
      simp only [Bool.false_eq_true, if_false]
      have hne : ¬ w.1 = r.e := fun e' => hre e'.symm
      simp only [updRec, wlook, if_neg hne]

/-- two write lists that realise the same function on the same edge set have the same effect -/
theorem applyWrites_congr (s : St) (k : Key) {ws ws' : List (Edge × Val)} {E : List Edge} {V : Edge → Val}
    (hnd : (ws.map (·.1)).Nodup) (hmem : ∀ e, e ∈ ws.map (·.1) ↔ e ∈ E) (hval : ∀ w ∈ ws, w.2 = V w.1)
    (hnd' : (ws'.map (·.1)).Nodup) (hmem' : ∀ e, e ∈ ws'.map (·.1) ↔ e ∈ E) (hval' : ∀ w ∈ ws', w.2 = V w.1) :
    applyWrites s k ws = applyWrites s k ws' := by
  rw [applyWrites_eq s k ws hnd, applyWrites_eq s k ws' hnd']
  congr 1
  apply List.map_congr_left
  intro r _
  simp only [updRec, wlook_spec hnd hmem hval, wlook_spec hnd' hmem' hval']

/-- fields other than `edges` are untouched by a run of writes; the edge list keeps its shape -/
theorem applyWrites_frame (s : St) (k : Key) (ws : List (Edge × Val)) :
    (applyWrites s k ws).seg = s.seg ∧ (applyWrites s k ws).nodes = s.nodes ∧
    (applyWrites s k ws).iouKey = s.iouKey ∧ (applyWrites s k ws).iouActive = s.iouActive ∧
    (applyWrites s k ws).edges.map (·.e) = s.edges.map (·.e) := by
  induction ws generalizing s with
  | nil => exact ⟨rfl, rfl, rfl, rfl, rfl⟩
  | cons w ws ih =>
    rw [applyWrites_cons]
    obtain ⟨h1, h2, h3, h4, h5⟩ := ih (s.setEdgeAttr w.1 k w.2)
    refine ⟨h1, h2, h3, h4, ?_⟩
    rw [h5]
    simp only [setEdgeAttr, List.map_map]
    apply List.map_congr_left
    intro r _
    simp only [Function.comp]
    split <;> rfl

/-! ### 5. `_iou_update` as a write list -/

abbrev Q := Nat × Nat × Nat × Nat

/-- the writes of the first loop of `_iou_update` and the edges it leaves in the list -/
def loopWrites : List Q → List Edge → List (Edge × Val) × List Edge
  | [], edges => ([], edges)
  | q :: rest, edges =>
    if edges.contains (q.1, q.2.1) then
      (((q.1, q.2.1), Val.iou q.2.2.1 q.2.2.2) :: (loopWrites rest (edges.erase (q.1, q.2.1))).1,
        (loopWrites rest (edges.erase (q.1, q.2.1))).2)
    else loopWrites rest edges

theorem iouUpdateLoop_eq (k : Key) (qs : List Q) (st : St) (edges : List Edge) :
    iouUpdateLoop k qs st edges = (applyWrites st k (loopWrites qs edges).1, (loopWrites qs edges).2) := by
  induction qs generalizing st edges with
  | nil => rfl
  | cons q rest ih =>
    unfold iouUpdateLoop loopWrites
    by_cases hc : edges.contains (q.1, q.2.1) = true
    · simp only [hc, if_true]
      rw [ih, applyWrites_cons]
    · simp only [hc]
      exact ih st edges

def frameWrites (qs : List Q) (edges : List Edge) : List (Edge × Val) :=
  (loopWrites qs edges).1 ++ (loopWrites qs edges).2.map (fun e => (e, Val.zero))

theorem iouUpdateFrames_eq (s : St) (k : Key) (edges : List Edge) (f1 f2 : List Nat) :
    s.iouUpdateFrames k edges f1 f2 = applyWrites s k (frameWrites (computeIous f1 f2) edges) := by
  unfold iouUpdateFrames frameWrites
  rw [iouUpdateLoop_eq, applyWrites_append]
  simp only [applyWrites, List.foldl_map]

theorem loopWrites_perm (qs : List Q) (edges : List Edge) :
    ((loopWrites qs edges).1.map (·.1) ++ (loopWrites qs edges).2).Perm edges := by
  induction qs generalizing edges with
  | nil => simp [loopWrites]
  | cons q rest ih =>
    unfold loopWrites
    by_cases hc : edges.contains (q.1, q.2.1) = true
    · simp only [hc, if_true, List.map_cons, List.cons_append]
      have hm : (q.1, q.2.1) ∈ edges := by simpa using hc
      exact ((ih (edges.erase (q.1, q.2.1))).cons _).trans (List.perm_cons_erase hm).symm
    · simp only [hc]
      exact ih edges

theorem loopWrites_val (qs : List Q) (edges : List Edge) :
    ∀ w ∈ (loopWrites qs edges).1, ∃ i u, (w.1.1, w.1.2, i, u) ∈ qs ∧ w.2 = Val.iou i u := by
  induction qs generalizing edges with
  | nil => intro w hw; cases hw
  | cons q rest ih =>
    unfold loopWrites
    by_cases hc : edges.contains (q.1, q.2.1) = true
    · simp only [hc, if_true]
      intro w hw
      rcases List.mem_cons.mp hw with rfl | hw
      · exact ⟨q.2.2.1, q.2.2.2, List.mem_cons_self, rfl⟩
      · obtain ⟨i, u, h1, h2⟩ := ih _ w hw
        exact ⟨i, u, List.mem_cons_of_mem _ h1, h2⟩
    · simp only [hc]
      intro w hw
      obtain ⟨i, u, h1, h2⟩ := ih _ w hw
      exact ⟨i, u, List.mem_cons_of_mem _ h1, h2⟩

theorem loopWrites_left (qs : List Q) (edges : List Edge) (hnd : edges.Nodup) :
    ∀ e ∈ (loopWrites qs edges).2, e ∈ edges ∧ ∀ i u, (e.1, e.2, i, u) ∉ qs := by
  induction qs generalizing edges with
  | nil => intro e he; exact ⟨he, fun _ _ h => by cases h⟩
  | cons q rest ih =>
    unfold loopWrites
    by_cases hc : edges.contains (q.1, q.2.1) = true
    · simp only [hc, if_true]
      intro e he
      obtain ⟨h1, h2⟩ := ih _ (hnd.erase _) e he
      obtain ⟨hne, hin⟩ := (hnd.mem_erase_iff).mp h1
      refine ⟨hin, ?_⟩
      intro i u hmem
      rcases List.mem_cons.mp hmem with heq | hmem
      · apply hne
        rw [← heq]
      · exact h2 i u hmem
    · simp only [hc]
      intro e he
      obtain ⟨h1, h2⟩ := ih _ hnd e he
      refine ⟨h1, ?_⟩
      intro i u hmem
      rcases List.mem_cons.mp hmem with heq | hmem
      · apply hc
        have : e = (q.1, q.2.1) := by rw [← heq]
        rw [← this]
        simpa using h1
      · exact h2 i u hmem

theorem frameWrites_keys (qs : List Q) (edges : List Edge) :
    ((frameWrites qs edges).map (·.1)).Perm edges := by
  unfold frameWrites
  rw [List.map_append, List.map_map]
  have : ((fun w : Edge × Val => w.1) ∘ fun e => (e, Val.zero)) = id := rfl
  rw [this, List.map_id]
  exact loopWrites_perm qs edges

theorem frameWrites_val (qs : List Q) (edges : List Edge) (hnd : edges.Nodup) :
    ∀ w ∈ frameWrites qs edges,
      (∃ i u, (w.1.1, w.1.2, i, u) ∈ qs ∧ w.2 = Val.iou i u) ∨
      ((∀ i u, (w.1.1, w.1.2, i, u) ∉ qs) ∧ w.2 = Val.zero) := by
  intro w hw
  unfold frameWrites at hw
  rcases List.mem_append.mp hw with h | h
  · exact Or.inl (loopWrites_val qs edges w h)
  · obtain ⟨e, he, rfl⟩ := List.mem_map.mp h
    exact Or.inr ⟨(loopWrites_left qs edges hnd e he).2, rfl⟩

/-- every write of `_iou_update` on two frames of `g` is the true value of its edge -/
theorem frameWrites_trueVal (g : Seg) (t1 t2 : Nat) (edges : List Edge) (hnd : edges.Nodup)
    (hnz : ∀ e ∈ edges, e.1 ≠ 0 ∧ e.2 ≠ 0) :
    ∀ w ∈ frameWrites (computeIous (g.frameAt t1) (g.frameAt t2)) edges, w.2 = trueVal g t1 t2 w.1 := by
  intro w hw
  have hwe : w.1 ∈ edges :=
    (frameWrites_keys _ edges).mem_iff.mp (List.mem_map.mpr ⟨w, hw, rfl⟩)
  obtain ⟨hz1, hz2⟩ := hnz _ hwe
  rcases frameWrites_val _ edges hnd w hw with ⟨i, u, hmem, hv⟩ | ⟨hno, hv⟩
  · obtain ⟨-, -, hi, hpos, hu⟩ := mem_computeIous_frameAt.mp hmem
    have hne : interCount g t1 t2 w.1.1 w.1.2 ≠ 0 := by omega
    rw [hv, trueVal, if_neg hne, ← hi, ← hu]
  · by_cases hi : interCount g t1 t2 w.1.1 w.1.2 = 0
    · rw [hv, trueVal, if_pos hi]
    · exfalso
      exact hno _ _ (mem_computeIous_frameAt.mpr ⟨hz1, hz2, rfl, by omega, rfl⟩)

/-! ### 6. grouping by frame pair -/

abbrev Groups := List ((Nat × Nat) × List Edge)

theorem dictAppend_perm (key : Nat × Nat) (e : Edge) (d : Groups) :
    ((aset key ((alook key d).getD [] ++ [e]) d).flatMap (·.2)).Perm (d.flatMap (·.2) ++ [e]) := by
  induction d with
  | nil => simp [alook, aset]
  | cons kl r ih =>
    obtain ⟨k', l'⟩ := kl
    by_cases hk : (k' == key) = true
    · simp only [alook, aset, hk, if_true, Option.getD_some, List.flatMap_cons]
      rw [List.append_assoc, List.append_assoc]
      exact List.Perm.append_left l' List.perm_append_comm
    · simp only [alook, aset, hk, List.flatMap_cons]
      rw [List.append_assoc]
      exact List.Perm.append_left l' ih

theorem dictAppend_keys (F : Edge → Nat × Nat) (e : Edge) (d : Groups)
    (h : ∀ grp ∈ d, ∀ x ∈ grp.2, F x = grp.1) :
    ∀ grp ∈ aset (F e) ((alook (F e) d).getD [] ++ [e]) d, ∀ x ∈ grp.2, F x = grp.1 := by
  induction d with
  | nil =>
    intro grp hg x hx
    simp only [alook, aset, Option.getD_none, List.nil_append, List.mem_singleton] at hg
    subst hg
    simp only [List.mem_singleton] at hx
    rw [hx]
  | cons kl r ih =>
    obtain ⟨k', l'⟩ := kl
    have hr : ∀ grp ∈ r, ∀ x ∈ grp.2, F x = grp.1 := fun grp hg => h grp (List.mem_cons_of_mem _ hg)
    have hhd : ∀ x ∈ l', F x = k' := h (k', l') List.mem_cons_self
    by_cases hk : (k' == F e) = true
    · have hk' : k' = F e := by simpa using hk
      simp only [alook, aset, hk, if_true, Option.getD_some]
      intro grp hg x hx
      rcases List.mem_cons.mp hg with rfl | hg
      · rcases List.mem_append.mp hx with hx | hx
        · rw [hhd x hx, hk']
        · simp only [List.mem_singleton] at hx
          rw [hx]
      · exact hr grp hg x hx
    · simp only [alook, aset, hk]
      intro grp hg x hx
      rcases List.mem_cons.mp hg with rfl | hg
      · exact hhd x hx
      · exact ih hr grp hg x hx

theorem foldl_groupAdd_perm (s : St) (es : List Edge) (d : Groups) :
    ((es.foldl (groupAdd s) d).flatMap (·.2)).Perm (d.flatMap (·.2) ++ es) := by
  induction es generalizing d with
  | nil => simp
  | cons e es ih =>
    rw [List.foldl_cons]
    refine (ih _).trans ?_
    have := (dictAppend_perm (s.framesOf e) e d).append_right es
    simpa [groupAdd, List.append_assoc] using this

theorem foldl_groupAdd_keys (s : St) (es : List Edge) (d : Groups)
    (h : ∀ grp ∈ d, ∀ x ∈ grp.2, s.framesOf x = grp.1) :
    ∀ grp ∈ es.foldl (groupAdd s) d, ∀ x ∈ grp.2, s.framesOf x = grp.1 := by
  induction es generalizing d with
  | nil => exact h
  | cons e es ih =>
    rw [List.foldl_cons]
    exact ih _ (dictAppend_keys s.framesOf e d h)

/-- the groups partition the enumerated edges … -/
theorem groupEdges_perm (s : St) (es : List Edge) : ((s.groupEdges es).flatMap (·.2)).Perm es := by
  simpa [groupEdges] using foldl_groupAdd_perm s es []

/-- … and every edge sits under the frame pair of its own endpoints -/
theorem groupEdges_keys (s : St) (es : List Edge) :
    ∀ grp ∈ s.groupEdges es, ∀ x ∈ grp.2, s.framesOf x = grp.1 :=
  foldl_groupAdd_keys s es [] (fun _ h => by cases h)

/-! ### 7. bulk -/

/-- all writes of the group loop -/
def groupWrites (g : Seg) (groups : Groups) : List (Edge × Val) :=
  groups.flatMap (fun grp => frameWrites (computeIous (g.frameAt grp.1.1) (g.frameAt grp.1.2)) grp.2)

theorem iouGroupsRun_eq (s : St) (g : Seg) (k : Key) (groups : Groups) :
    iouGroupsRun s g k groups = applyWrites s k (groupWrites g groups) := by
  induction groups generalizing s with
  | nil => rfl
  | cons grp rest ih =>
    simp only [iouGroupsRun, List.foldl_cons, groupWrites, List.flatMap_cons]
    rw [applyWrites_append, ← iouUpdateFrames_eq]
    exact ih _

theorem groupWrites_keys (g : Seg) (groups : Groups) :
    ((groupWrites g groups).map (·.1)).Perm (groups.flatMap (·.2)) := by
  induction groups with
  | nil => exact List.Perm.refl _
  | cons grp rest ih =>
    simp only [groupWrites, List.flatMap_cons, List.map_append]
    exact List.Perm.append (frameWrites_keys _ _) ih

theorem mem_groupWrites {g : Seg} {groups : Groups} {w : Edge × Val} (h : w ∈ groupWrites g groups) :
    ∃ grp ∈ groups, w ∈ frameWrites (computeIous (g.frameAt grp.1.1) (g.frameAt grp.1.2)) grp.2 := by
  simpa [groupWrites, List.mem_flatMap] using h

theorem nodup_of_flatMap_nodup {groups : Groups} (h : (groups.flatMap (·.2)).Nodup) :
    ∀ grp ∈ groups, grp.2.Nodup := by
  intro grp hg
  have := (List.pairwise_flatMap.mp h).1 grp hg
  exact this

/-- the per-edge model's bulk computation as a write list -/
theorem foldl_iouUpdateEdge_eq (s : St) (k : Key) (es : List Edge) (st : St)
    (hk : st.iouKey = some k) (ha : st.iouActive = true) (hs : st.seg = s.seg) (hss : s.seg.isSome = true)
    (hn : st.nodes = s.nodes) :
    es.foldl iouUpdateEdge st = applyWrites st k (es.map (fun e => (e, s.iouOf e))) := by
  induction es generalizing st with
  | nil => rfl
  | cons e es ih =>
    rw [List.foldl_cons, List.map_cons, applyWrites_cons]
    have hon : st.iouUpdateEdge e = st.setEdgeAttr e k (s.iouOf e) := by
      rw [iouUpdateEdge_on hk ha (by rw [hs]; exact hss), iouOf_congr_sg hs hn]
    rw [hon]
    exact ih _ hk ha hs hn

/-- **Faithful bulk = per-edge model**, for any enumeration `es` of the edge set. -/
theorem iouComputeFaithfulOn_eq (s : St) (g : Seg) (k : Key) (es : List Edge)
    (hg : s.seg = some g) (hk : s.iouKey = some k) (ha : s.iouActive = true)
    (hndE : s.edgeList.Nodup) (hes : es.Nodup) (hmem : ∀ e, e ∈ es ↔ e ∈ s.edgeList)
    (hend : ∀ e ∈ s.edgeList, (s.timeOf e.1).isSome ∧ (s.timeOf e.2).isSome)
    (hnz : ∀ e ∈ s.edgeList, e.1 ≠ 0 ∧ e.2 ≠ 0) :
    s.iouComputeFaithfulOn es = s.iouCompute := by
  have hL : s.iouComputeFaithfulOn es = applyWrites s k (groupWrites g (s.groupEdges es)) := by
    simp only [iouComputeFaithfulOn, hg, hk, ha, Bool.not_true, Bool.false_eq_true, if_false]
    exact iouGroupsRun_eq _ _ _ _
  have hR : s.iouCompute = applyWrites s k (s.edgeList.map (fun e => (e, s.iouOf e))) :=
    foldl_iouUpdateEdge_eq s k _ s hk ha rfl (by simp [hg]) rfl
  rw [hL, hR]
  have hperm : ((groupWrites g (s.groupEdges es)).map (·.1)).Perm es :=
    (groupWrites_keys g _).trans (groupEdges_perm s es)
  have hgn : ((s.groupEdges es).flatMap (·.2)).Nodup := (groupEdges_perm s es).nodup_iff.mpr hes
  apply applyWrites_congr s k (E := s.edgeList) (V := s.iouOf)
  · exact hperm.nodup_iff.mpr hes
  · intro e; rw [hperm.mem_iff]; exact hmem e
  · intro w hw
    obtain ⟨grp, hgrp, hwf⟩ := mem_groupWrites hw
    have hnd := nodup_of_flatMap_nodup hgn grp hgrp
    have hsub : ∀ e ∈ grp.2, e ∈ s.edgeList := by
      intro e he
      apply (hmem e).mp
      apply (groupEdges_perm s es).mem_iff.mp
      exact List.mem_flatMap.mpr ⟨grp, hgrp, he⟩
    have hwe : w.1 ∈ grp.2 :=
      (frameWrites_keys _ grp.2).mem_iff.mp (List.mem_map.mpr ⟨w, hwf, rfl⟩)
    have hv := frameWrites_trueVal g grp.1.1 grp.1.2 grp.2 hnd (fun e he => hnz e (hsub e he)) w hwf
    have hkey := groupEdges_keys s es grp hgrp w.1 hwe
    obtain ⟨h1, h2⟩ := hend w.1 (hsub _ hwe)
    obtain ⟨t1, ht1⟩ := Option.isSome_iff_exists.mp h1
    obtain ⟨t2, ht2⟩ := Option.isSome_iff_exists.mp h2
    rw [hv, iouOf_eq_trueVal hg ht1 ht2, ← hkey]
    simp [framesOf, ht1, ht2]
  · simp only [List.map_map]
    have : ((fun w : Edge × Val => w.1) ∘ fun e => (e, s.iouOf e)) = id := rfl
    rw [this, List.map_id]
    exact hndE
  · intro e
    simp only [List.map_map]
    have : ((fun w : Edge × Val => w.1) ∘ fun e => (e, s.iouOf e)) = id := rfl
    rw [this, List.map_id]
  · intro w hw
    obtain ⟨e, -, rfl⟩ := List.mem_map.mp hw
    rfl

/-! networkx enumeration of the edges -/

theorem edgesNx_eq (s : St) :
    s.edgesNx = s.ids.flatMap (fun u => s.edgeList.filter (fun e => e.1 == u)) := by
  simp only [edgesNx, ids, edgeList, List.flatMap_map, succs, List.map_map, List.filter_map]
  congr 1
  funext r
  apply List.map_congr_left
  intro er her
  have : (er.e.1 == r.id) = true := (List.mem_filter.mp her).2
  simp only [Function.comp]
  apply Prod.ext
  · exact (by simpa using this : er.e.1 = r.id).symm
  · rfl

theorem mem_edgesNx {s : St} (hsrc : ∀ e ∈ s.edgeList, e.1 ∈ s.ids) (e : Edge) :
    e ∈ s.edgesNx ↔ e ∈ s.edgeList := by
  rw [edgesNx_eq]
  simp only [List.mem_flatMap, List.mem_filter, beq_iff_eq]
  constructor
  · rintro ⟨u, -, he, -⟩; exact he
  · intro he; exact ⟨e.1, hsrc e he, he, rfl⟩

theorem edgesNx_nodup {s : St} (hids : s.ids.Nodup) (hndE : s.edgeList.Nodup) : s.edgesNx.Nodup := by
  rw [edgesNx_eq]
  unfold List.Nodup
  rw [List.pairwise_flatMap]
  constructor
  · intro u _
    exact List.Pairwise.filter _ hndE
  · refine List.Pairwise.imp ?_ hids
    intro u v huv x hx y hy hxy
    have h1 : x.1 = u := by simpa using (List.mem_filter.mp hx).2
    have h2 : y.1 = v := by simpa using (List.mem_filter.mp hy).2
    apply huv
    rw [← h1, ← h2, hxy]

/-- with the feature off (no array / no key / inactive) the per-edge bulk fold is the identity -/
theorem foldl_iouUpdateEdge_off (es : List Edge) (s : St)
    (hoff : s.seg = none ∨ s.iouKey = none ∨ s.iouActive = false) :
    es.foldl iouUpdateEdge s = s := by
  induction es with
  | nil => rfl
  | cons e es ih =>
    rw [List.foldl_cons]
    have : s.iouUpdateEdge e = s := by
      unfold iouUpdateEdge
      rcases hoff with h | h | h
      · cases hk : s.iouKey <;> simp [h]
      · simp [h]
      · cases hk : s.iouKey <;> simp [h]
    rw [this]; exact ih

theorem iouComputeFaithfulOn_off (es : List Edge) (s : St)
    (hoff : s.seg = none ∨ s.iouKey = none ∨ s.iouActive = false) :
    s.iouComputeFaithfulOn es = s := by
  unfold iouComputeFaithfulOn
  rcases hoff with h | h | h
  · simp [h]
  · cases hg : s.seg <;> simp [h]
  · cases hg : s.seg <;> cases hk : s.iouKey <;> simp [h]

/-! ### 8. incremental -/

theorem frameAt_mask (g : Seg) (t l : Nat) :
    maskFrame (g.frameAt t) l =
      (List.range g.frame).map (fun o => if g.data.getD (t * g.frame + o) 0 == l then l else 0) := by
  simp only [maskFrame, Seg.frameAt, List.map_map]
  rfl

theorem mem_maskFrame {f : List Nat} {l x : Nat} (h : x ∈ maskFrame f l) : x = l ∨ x = 0 := by
  simp only [maskFrame, List.mem_map] at h
  obtain ⟨y, -, rfl⟩ := h
  split
  · exact Or.inl rfl
  · exact Or.inr rfl

set_option linter.unusedSimpArgs false in
theorem zip_mask_count (g : Seg) (t1 t2 : Nat) (e : Edge) (h1 : e.1 ≠ 0) (h2 : e.2 ≠ 0) :
    ((maskFrame (g.frameAt t1) e.1).zip (maskFrame (g.frameAt t2) e.2)).count (e.1, e.2)
      = interCount g t1 t2 e.1 e.2 := by
  rw [frameAt_mask, frameAt_mask, List.zip_map', List.count_eq_countP, List.countP_map]
  unfold interCount
  apply List.countP_congr
  intro o _
  simp only [Function.comp]
  by_cases ha : g.data.getD (t1 * g.frame + o) 0 = e.1 <;>
    by_cases hb : g.data.getD (t2 * g.frame + o) 0 = e.2 <;>
    simp [ha, hb, Ne.symm h1, Ne.symm h2]

set_option linter.unusedSimpArgs false in
theorem mask_count (g : Seg) (t l : Nat) (hl : l ≠ 0) :
    (maskFrame (g.frameAt t) l).count l = maskCount g t l := by
  rw [frameAt_mask, List.count_eq_countP, List.countP_map]
  unfold maskCount
  apply List.countP_congr
  intro o _
  simp only [Function.comp]
  by_cases ha : g.data.getD (t * g.frame + o) 0 = l <;> simp [ha, Ne.symm hl]

/-- the head of the masked triple list (indeed every element) is the pair of the edge itself -/
theorem mem_computeIous_mask {g : Seg} {t1 t2 : Nat} {e : Edge} (h1 : e.1 ≠ 0) (h2 : e.2 ≠ 0)
    {q : Q} (hq : q ∈ computeIous (maskFrame (g.frameAt t1) e.1) (maskFrame (g.frameAt t2) e.2)) :
    q = (e.1, e.2, interCount g t1 t2 e.1 e.2,
          maskCount g t1 e.1 + maskCount g t2 e.2 - interCount g t1 t2 e.1 e.2) ∧
    interCount g t1 t2 e.1 e.2 ≠ 0 := by
  obtain ⟨a, b, i, u⟩ := q
  obtain ⟨ha, hb, hi, hpos, hu⟩ := mem_computeIous.mp hq
  have hz : (a, b) ∈ (maskFrame (g.frameAt t1) e.1).zip (maskFrame (g.frameAt t2) e.2) := by
    rw [hi] at hpos; exact List.count_pos_iff.mp hpos
  obtain ⟨hza, hzb⟩ := List.of_mem_zip hz
  have ha' : a = e.1 := by
    rcases mem_maskFrame hza with h | h
    · exact h
    · exact absurd h ha
  have hb' : b = e.2 := by
    rcases mem_maskFrame hzb with h | h
    · exact h
    · exact absurd h hb
  subst ha' hb'
  rw [zip_mask_count g t1 t2 e h1 h2] at hi
  rw [mask_count g t1 _ h1, mask_count g t2 _ h2] at hu
  refine ⟨?_, by omega⟩
  rw [hu, hi]

/-- **the masked incremental value is the true overlap** (whatever `np.max` says) -/
theorem iouIncrVal_eq (g : Seg) (t1 t2 : Nat) (e : Edge) (h1 : e.1 ≠ 0) (h2 : e.2 ≠ 0) :
    iouIncrVal g t1 t2 e = trueVal g t1 t2 e := by
  have hempty : computeIous (maskFrame (g.frameAt t1) e.1) (maskFrame (g.frameAt t2) e.2) = [] →
      interCount g t1 t2 e.1 e.2 = 0 := by
    intro hnil
    by_cases hi : interCount g t1 t2 e.1 e.2 = 0
    · exact hi
    · exfalso
      have : (e.1, e.2, interCount g t1 t2 e.1 e.2,
          (maskFrame (g.frameAt t1) e.1).count e.1 + (maskFrame (g.frameAt t2) e.2).count e.2
            - interCount g t1 t2 e.1 e.2) ∈
          computeIous (maskFrame (g.frameAt t1) e.1) (maskFrame (g.frameAt t2) e.2) :=
        mem_computeIous.mpr ⟨h1, h2, (zip_mask_count g t1 t2 e h1 h2).symm, by omega, rfl⟩
      rw [hnil] at this
      cases this
  have hmax : ∀ (t : Nat) (l : Nat), l ≠ 0 → listMax (maskFrame (g.frameAt t) l) = 0 →
      l ∉ maskFrame (g.frameAt t) l := by
    intro t l hl hm hmem
    have key : ∀ (f : List Nat) (a : Nat), f.foldl max a = 0 → a = 0 ∧ ∀ x ∈ f, x = 0 := by
      intro f
      induction f with
      | nil => intro a h; exact ⟨h, fun _ hx => by cases hx⟩
      | cons y ys ih =>
        intro a h
        rw [List.foldl_cons] at h
        obtain ⟨h0, hr⟩ := ih _ h
        refine ⟨by omega, ?_⟩
        intro x hx
        rcases List.mem_cons.mp hx with rfl | hx
        · omega
        · exact hr x hx
    exact hl ((key _ 0 hm).2 l hmem)
  have hzero_of_notmem : (e.1 ∉ maskFrame (g.frameAt t1) e.1 ∨ e.2 ∉ maskFrame (g.frameAt t2) e.2) →
      interCount g t1 t2 e.1 e.2 = 0 := by
    intro h
    by_cases hi : interCount g t1 t2 e.1 e.2 = 0
    · exact hi
    · exfalso
      rw [← zip_mask_count g t1 t2 e h1 h2] at hi
      have hz := List.count_pos_iff.mp (Nat.pos_of_ne_zero hi)
      obtain ⟨hza, hzb⟩ := List.of_mem_zip hz
      rcases h with h | h
      · exact h hza
      · exact h hzb
  unfold iouIncrVal
  simp only
  split
  · rename_i hm
    simp only [Bool.or_eq_true, beq_iff_eq] at hm
    have : interCount g t1 t2 e.1 e.2 = 0 := by
      apply hzero_of_notmem
      rcases hm with hm | hm
      · exact Or.inl (hmax t1 e.1 h1 hm)
      · exact Or.inr (hmax t2 e.2 h2 hm)
    rw [trueVal, if_pos this]
  · split
    · rename_i hnil
      rw [trueVal, if_pos (hempty hnil)]
    · rename_i q rest hcons
      have hq : q ∈ computeIous (maskFrame (g.frameAt t1) e.1) (maskFrame (g.frameAt t2) e.2) := by
        rw [hcons]; exact List.mem_cons_self
      obtain ⟨hqe, hne⟩ := mem_computeIous_mask h1 h2 hq
      rw [trueVal, if_neg hne, hqe]

/-- one iteration of `EdgeAnnotator.update` = the per-edge model's `iouUpdateEdge` -/
theorem iouUpdateIncrFaithful_eq (s : St) (e : Edge)
    (hend : (s.timeOf e.1).isSome ∧ (s.timeOf e.2).isSome) (hnz : e.1 ≠ 0 ∧ e.2 ≠ 0) :
    s.iouUpdateIncrFaithful e = s.iouUpdateEdge e := by
  obtain ⟨t1, ht1⟩ := Option.isSome_iff_exists.mp hend.1
  obtain ⟨t2, ht2⟩ := Option.isSome_iff_exists.mp hend.2
  unfold iouUpdateIncrFaithful iouUpdateEdge
  cases hg : s.seg with
  | none => cases hk : s.iouKey <;> simp
  | some g =>
    cases hk : s.iouKey with
    | none => rfl
    | some k =>
      cases ha : s.iouActive with
      | false => simp
      | true =>
        simp only [Bool.not_true, Bool.false_eq_true, if_false, Option.isSome_some, Bool.and_self, if_true]
        rw [iouOf_eq_trueVal hg ht1 ht2, iouIncrVal_eq g _ _ e hnz.1 hnz.2]
        simp [framesOf, ht1, ht2]

theorem foldl_iouUpdateIncrFaithful_eq (es : List Edge) (s : St)
    (hend : ∀ e ∈ es, (s.timeOf e.1).isSome ∧ (s.timeOf e.2).isSome)
    (hnz : ∀ e ∈ es, e.1 ≠ 0 ∧ e.2 ≠ 0) :
    es.foldl iouUpdateIncrFaithful s = es.foldl iouUpdateEdge s := by
  induction es generalizing s with
  | nil => rfl
  | cons e es ih =>
    rw [List.foldl_cons, List.foldl_cons,
      iouUpdateIncrFaithful_eq s e (hend e List.mem_cons_self) (hnz e List.mem_cons_self)]
    apply ih
    · intro e' he'
      have := hend e' (List.mem_cons_of_mem _ he')
      simpa only [timeOf, findNode, iouUpdateEdge_nodes] using this
    · intro e' he'; exact hnz e' (List.mem_cons_of_mem _ he')

/-! ### 9. index form of the intersection count -/

theorem zip_count_index (a b : Nat) : ∀ (f1 f2 : List Nat),
    (f1.zip f2).count (a, b) =
      (List.range (min f1.length f2.length)).countP (fun p => f1.getD p 0 == a && f2.getD p 0 == b)
  | [], f2 => by simp
  | x :: xs, [] => by simp
  | x :: xs, y :: ys => by
    have ih := zip_count_index a b xs ys
    have hmin : min (x :: xs).length (y :: ys).length = min xs.length ys.length + 1 := by
      simp only [List.length_cons]; omega
    rw [hmin, List.range_succ_eq_map, List.zip_cons_cons, List.count_cons, List.countP_cons,
      List.countP_map, ih]
    congr 1

end Ft.R5F
