/-
  FtProofs.R6PReachLemmas — package R6P, part 5: the invariant in terms of node records (`InvP`),
  the concrete preconditions `CmdPre8` / `CmdPre9` / `CmdPre`, admissible lists `Adm8` / `Adm9` /
  `Adm`, and the example state and command lists of the property files.
-/
import FtProofs.R6PFrozenLemmas
import FtProofs.R6PPixLemmas
namespace Ft.R6P
open Ft Ft.St Ft.R2G Ft.R5B List

/-! ### 1. the invariant, stated on node records -/

/-- tracks with segmentation, ANY graph: an array of whole frames; every node's time inside the
    array; a label that is a node id occurs only in that node's frame (labels that are no node are
    unconstrained); duplicate-free non-zero node ids; a duplicate-free edge list whose endpoints
    are nodes (what a networkx DiGraph is); active regionprops keys are keys of the annotator.
    No forest / in-degree / out-degree / direction / acyclicity condition. -/
structure InvP (s : St) : Prop where
  seg : ∃ g, s.seg = some g ∧ g.WF ∧ (∀ r ∈ s.nodes, r.time < g.nframes) ∧ LabelsInFrame s g
  nodup : s.ids.Nodup
  nz : ∀ r ∈ s.nodes, r.id ≠ 0
  enodup : s.edgeList.Nodup
  ends : ∀ e ∈ s.edgeList, e.1 ∈ s.ids ∧ e.2 ∈ s.ids
  act : ∀ k ∈ s.rpActive, k ∈ s.rpAvail

instance (s : St) (g : Seg) : Decidable (LabelsInFrame s g) := by
  unfold LabelsInFrame; infer_instance

theorem invP_iff_str (s : St) : InvP s ↔ Str s := by
  constructor
  · rintro ⟨⟨g, hg, hwf, ht, hl⟩, hnd, h0, hen, he, ha⟩
    refine ⟨⟨g, hg, hwf, by rw [← ids_eq_skel_sg]; exact hnd, ?_, ?_, ?_, hen, ?_, ?_⟩, ha⟩
    · intro p hp
      obtain ⟨r, hr, rfl⟩ := List.mem_map.1 hp
      exact h0 r hr
    · intro p hp
      obtain ⟨r, hr, rfl⟩ := List.mem_map.1 hp
      exact ht r hr
    · intro i hi p hp hd
      obtain ⟨r, hr, rfl⟩ := List.mem_map.1 hp
      exact hl i hi (by rw [hd]; exact h0 r hr) r hr hd.symm
    · intro e hm; rw [← ids_eq_skel_sg]; exact (he e hm).1
    · intro e hm; rw [← ids_eq_skel_sg]; exact (he e hm).2
  · intro h
    obtain ⟨g, hg⟩ : ∃ g, s.seg = some g := by obtain ⟨⟨g, hg, -⟩, -⟩ := h; exact ⟨g, hg⟩
    exact ⟨⟨g, hg, h.wf hg, h.time_lt hg, h.labelsInFrame hg⟩, h.ids_nodup, h.id_ne_zero, h.edges_nodup,
      fun e he => ⟨h.esrc e he, h.edst e he⟩, h.2⟩

/-! ### 2. preconditions and admissible lists -/

/-- C08: the documented argument preconditions of the primitives (`PrimPre`), for `inv` those of
    the inverse command (read off the last record), for `enable` `EnPre8` -/
abbrev CmdPre8 (s : St) (last : Option PrimRec) (c : Cmd) : Prop :=
  CmdPreG PrimPre EnPre8 (fun _ _ => True) s last c
/-- C09: the same with `EnPre9` for `enable` -/
abbrev CmdPre9 (s : St) (last : Option PrimRec) (c : Cmd) : Prop :=
  CmdPreG PrimPre EnPre9 (fun _ _ => True) s last c
/-- both -/
abbrev CmdPre (s : St) (last : Option PrimRec) (c : Cmd) : Prop :=
  CmdPreG PrimPre (fun s ks rc => EnPre8 s ks rc ∧ EnPre9 s ks rc) (fun _ _ => True) s last c

abbrev Adm8 := AdmG PrimPre EnPre8 (fun _ _ => True)
/-- for the reading "every node WITH pixels is current": nothing is asked of `enable ks true` -/
abbrev Adm8px := AdmG PrimPre EnPre8px (fun _ _ => True)
abbrev Adm9 := AdmG PrimPre EnPre9 (fun _ _ => True)
abbrev Adm := AdmG PrimPre (fun s ks rc => EnPre8 s ks rc ∧ EnPre9 s ks rc) (fun _ _ => True)

theorem AdmG.mono {Pre : St → PCmd → Prop} {EPre EPre' : St → List Key → Bool → Prop}
    {DPre : St → List Key → Prop} (hE : ∀ s ks rc, EPre s ks rc → EPre' s ks rc) :
    ∀ (cs : List Cmd) (fresh : Bool) (p : Cfg), AdmG Pre EPre DPre fresh p cs → AdmG Pre EPre' DPre fresh p cs
  | [], _, _, _ => trivial
  | c :: cs, fresh, p, h => by
    refine ⟨?_, AdmG.mono hE cs _ _ h.2⟩
    rcases h.1 with h1 | h1
    · left
      cases c with
      | prim c => exact h1
      | inv => exact h1
      | enable ks rc => exact hE _ _ _ h1
      | disable ks => exact h1
    · exact Or.inr h1

theorem Adm.to8 {cs : List Cmd} {fresh : Bool} {p : Cfg} (h : Adm fresh p cs) : Adm8 fresh p cs :=
  AdmG.mono (fun _ _ _ h => h.1) cs fresh p h
theorem Adm.to9 {cs : List Cmd} {fresh : Bool} {p : Cfg} (h : Adm fresh p cs) : Adm9 fresh p cs :=
  AdmG.mono (fun _ _ _ h => h.2) cs fresh p h

/-! ### 3. the example: six nodes, a merge, a division, a skip edge -/

/-- four frames of four pixels.  Nodes 1, 2 in frame 0; 3 in frame 1; 4, 5 in frame 2; 6 in frame 3.
    Edges: (1,3), (2,3) — a MERGE, two parents in one frame; (3,4), (3,5) — a division;
    (2,5) — a SKIP edge from frame 0 to frame 2 (and a second parent of 5); (4,6).
    Key 10 = area (regionprops, active), key 12 a second regionprops key (off), key 11 = IoU (active),
    key 7 a static node attribute; the label 9 in frame 3 is an orphan (no node). -/
def exP : St :=
  { nodes := [{ id := 1, time := 0, tid := 1, lin := some 1, other := [(7, .tok 1), (10, .mask [0, 1])] },
              { id := 2, time := 0, tid := 2, lin := some 1, other := [(10, .mask [2])] },
              { id := 3, time := 1, tid := 3, lin := some 1, other := [(10, .mask [4, 5, 6])] },
              { id := 4, time := 2, tid := 4, lin := some 1, other := [(10, .mask [8, 9])] },
              { id := 5, time := 2, tid := 5, lin := some 1, other := [(10, .mask [10])] },
              { id := 6, time := 3, tid := 6, lin := some 1, other := [(10, .mask [12, 13])] }],
    edges := [{ e := (1, 3), attrs := [(11, .iou 2 3)] }, { e := (2, 3), attrs := [(11, .iou 1 3)] },
              { e := (3, 4), attrs := [(11, .iou 2 3)] }, { e := (3, 5), attrs := [(11, .iou 1 3)] },
              { e := (2, 5), attrs := [(11, .iou 1 1)] }, { e := (4, 6), attrs := [(11, .iou 2 2)] }],
    seg := some { frame := 4, data := [1, 1, 2, 0,  3, 3, 3, 0,  4, 4, 5, 0,  6, 6, 0, 9] },
    regNode := [7, 10], regEdge := [11], rpAvail := [10, 12], rpActive := [10],
    iouKey := some 11, iouActive := true, counter := 7 }

def exPg : Seg := { frame := 4, data := [1, 1, 2, 0,  3, 3, 3, 0,  4, 4, 5, 0,  6, 6, 0, 9] }

theorem exP_invP : InvP exP :=
  ⟨⟨exPg, rfl, by decide, by decide, by decide⟩, by decide, by decide, by decide, by decide, by decide⟩

theorem exP_rpOK : RpOK exP := by
  intro g hg
  have : g = exPg := by cases hg; rfl
  subst this
  decide

theorem exP_iouOK : IouOK exP := by
  intro g _ _ k hk
  have : k = 11 := by cases hk; rfl
  subst this
  decide

/-- grow node 5 by a background pixel; add the skip edge (1,4) with a STALE IoU attribute; switch
    area and IoU off; shrink node 5 so that it no longer overlaps its two parents; switch both on
    again with recomputation (the bulk paths); `inv` — no last record after a feature switch, a
    no-op (`bad-op` in the protocol) -/
def exCmds : List Cmd :=
  [.prim (.updSeg 5 [11] true), .prim (.addEdge (1, 4) [(11, .iou 9 9)]), .disable [10, 11],
   .prim (.updSeg 5 [10] false), .enable [10, 11] true, .inv]

/-- … continued: delete node 3 (the merge / division hub, with its four edges), undo that by `inv`
    (AddNode with the saved attributes and pixels), re-add one of the lost edges, invert that,
    erase one pixel of node 1 and invert it -/
def exCmds2 : List Cmd :=
  exCmds ++ [.prim (.delNode 3 none), .inv, .prim (.addEdge (2, 3) []), .inv,
             .prim (.updSeg 1 [1] false), .inv]

/-- `exP` plus a BACKWARD edge (6,1) — closing the cycle 1 → 3 → 4 → 6 → 1 — and a self loop (3,3) -/
def exPcyc : St :=
  { exP with edges := exP.edges ++ [{ e := (6, 1), attrs := [(11, .iou 2 2)] }, { e := (3, 3), attrs := [(11, .iou 3 3)] }] }

theorem exPcyc_invP : InvP exPcyc :=
  ⟨⟨exPg, rfl, by decide, by decide, by decide⟩, by decide, by decide, by decide, by decide, by decide⟩

theorem exPcyc_iouOK : IouOK exPcyc := by
  intro g _ _ k hk
  have : k = 11 := by cases hk; rfl
  subst this
  decide

/-- `exP` with area (10) and IoU (11) switched off -/
def exPoff : St := (exec (exP, none) (.disable [10, 11])).1

end Ft.R6P
