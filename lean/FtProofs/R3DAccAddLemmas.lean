/-
  FtProofs.R3DAccAddLemmas — package R3D: the field `addNodeLate` of `RefusalHyps`.

  The two late refusal paths of `UserAddNode` (`AddNodeLate`) do not occur on an `Inv` state:
  (i)  when both track neighbours `pred = some p`, `succ = some sc` exist on a valid solution they
       are consecutive nodes of one unbranched segment, hence `(p, sc)` is an edge with
       `outdeg p = 1`; the division checks then change nothing, and `DeleteEdge (p, sc)` is accepted;
  (ii) after an accepted `AddNode` the new node and both neighbours are nodes, so both linking
       `AddEdge` are accepted.
  Hence `uAddNode` is accepted on every `AddNodeLate` path, and a refusal is contradictory.
-/
import FtProofs.R3DHistLemmas

namespace Ft.R3D
open Ft Ft.St Ft.R2A1 Ft.R3P List

/-! ## §1 the two track neighbours are joined by a non-division edge -/

/-- two downward chains from one node are comparable -/
theorem segDown_linear {s : St} {h a b : Node} (ha : s.tk_SegDown h a) (hb : s.tk_SegDown h b) :
    s.tk_SegDown a b ∨ s.tk_SegDown b a := by
  induction hb with
  | refl => exact Or.inr ha
  | step p c _ he ho ih =>
    rcases ih with h1 | h1
    · exact Or.inl (tk_SegDown.step _ p c h1 he ho)
    · rcases h1.head with h2 | ⟨_, c', he', hd⟩
      · subst h2
        exact Or.inl (tk_SegDown.step _ _ c (tk_SegDown.refl _) he ho)
      · have hcc : c' = c := tk_child_unique ho he' he
        subst hcc
        exact Or.inr hd

/-- on a valid solution, two nodes with the same track id are joined by a downward chain of
    non-division edges from the earlier to the later one -/
theorem segDown_of_tid {s : St} (hV : Valid s) {a b : Node} (ha : a ∈ s.ids) (hb : b ∈ s.ids)
    (ht : s.tidOf a = s.tidOf b) (hlt : tm s a < tm s b) : s.tk_SegDown a b := by
  have hF := hV.forest
  have hseg := (tk_tid_iff_sameSeg hF hV.tid ha hb).1 ht
  obtain ⟨h, hh, hha⟩ := tk_exists_head hF _ a ha rfl
  have hhb := (hseg.head_iff hF h hh).1 hha
  rcases segDown_linear hha hhb with h1 | h1
  · exact h1
  · have h2 : tm s b ≤ tm s a := h1.anc.tm_le hF
    omega

/-- **the skip edge exists**: when the neighbour query returns both a predecessor and a successor
    on a valid solution, they are joined by an edge, and the predecessor does not divide -/
theorem nbr_edge {s : St} (hV : Valid s) {pred succ : Option Node} {tid time : Nat}
    (hN : R2D.NbrFacts s pred succ tid time) {p sc : Node} (hp : pred = some p)
    (hs : succ = some sc) : (p, sc) ∈ s.edgeList ∧ s.outdeg p = 1 := by
  obtain ⟨pm, ptid, plt, pmax⟩ := hN.p_ok p hp
  obtain ⟨sm, stid, slt, smin⟩ := hN.s_ok sc hs
  have hd := segDown_of_tid hV pm sm (ptid.trans stid.symm) (by omega)
  rcases hd.head with h0 | ⟨ho, c, hc, hcd⟩
  · subst h0; omega
  · have htc : s.tidOf c = some tid := by rw [hV.tid.along (p, c) hc ho]; exact ptid
    have h1 : tm s p < tm s c := hV.forest.tm_lt hc
    have h2 : tm s c ≤ tm s sc := hcd.anc.tm_le hV.forest
    have h3 := hN.not_at c htc
    have h4 : time < tm s c := by
      rcases Nat.lt_or_ge time (tm s c) with h | h
      · exact h
      · have := pmax c htc (by omega); omega
    have h5 := smin c htc h4
    rcases hcd.head with h6 | ⟨_, c', hc', hcd'⟩
    · subst h6; exact ⟨hc, ho⟩
    · have h7 : tm s c < tm s c' := hV.forest.tm_lt hc'
      have h8 : tm s c' ≤ tm s sc := hcd'.anc.tm_le hV.forest
      omega

/-- in the splice case the division checks accept without any forced removal -/
theorem pre_splice {sN : St} (hV : Valid sN) {p sc : Node} (force : Bool)
    (he : (p, sc) ∈ sN.edgeList) (ho : sN.outdeg p = 1) :
    addNodePre sN (some p) (some sc) force = (sN, .ok []) := by
  rw [R2D.addNodePre_some]
  have c : ¬ (sN.outdeg p == 2) = true := by rw [ho]; decide
  rw [if_neg c]
  unfold R2D.down
  simp only []
  rcases hh : (sN.preds sc).head? with _ | pos
  · rfl
  · have hm := head?_preds_mem hh
    have hpp : pos = p := hV.forest.par_unique hm he
    subst hpp
    simp only []
    rw [if_neg c]

/-! ## §2 the primitives of the late paths are accepted -/

theorem thenPrim_step {s1 s' : St} {recs : List PrimRec} {f : St → Except Err (St × PrimRec)}
    {r : PrimRec} (hk : f s1 = .ok (s', r)) :
    thenPrim (s1, .ok recs) f = (s', .ok (recs ++ [r])) := by
  unfold thenPrim
  simp only [hk]

theorem pDelEdge_ok {st : St} {e : Edge} (he : e ∈ st.edgeList) :
    ∃ st' r, st.pDelEdge e = .ok (st', r) := by
  obtain ⟨r, hr⟩ := tk_hasEdge_findEdge ((hasEdge_iff st e).2 he)
  exact ⟨_, _, pDelEdge_eq hr⟩

theorem pAddEdge_ok {st : St} {u w : Node} (hu : u ∈ st.ids) (hw : w ∈ st.ids) :
    ∃ st' r, st.pAddEdge (u, w) [] = .ok (st', r) ∧ st'.ids = st.ids := by
  have h1 : st.hasNode u = true := (hasNode_iff st u).2 hu
  have h2 : st.hasNode w = true := (hasNode_iff st w).2 hw
  have hx : ∃ x, st.pAddEdge (u, w) [] = .ok x := by
    unfold pAddEdge
    simp only [h1, h2, Bool.not_true, Bool.or_self, Bool.false_eq_true, if_false]
    exact ⟨_, rfl⟩
  obtain ⟨⟨st', r⟩, hx⟩ := hx
  exact ⟨st', r, hx, (PC.pAddEdge_BV hx).ids⟩

/-- the `DeleteEdge` of the skip edge is accepted when the edge is there -/
theorem a1_ok_gen {a0 : UOut} {pred succ : Option Node} {r0 : List PrimRec} (h0 : a0.2 = .ok r0)
    (h : ∀ p sc, pred = some p → succ = some sc → (p, sc) ∈ a0.1.edgeList) :
    ∃ recs1, (match pred, succ with
      | some p, some sc => thenPrim a0 (fun st => st.pDelEdge (p, sc))
      | _, _ => a0).2 = .ok recs1 := by
  obtain ⟨s0, x⟩ := a0
  simp only [] at h0 h
  subst h0
  rcases pred with _ | p
  · exact ⟨r0, rfl⟩
  · rcases succ with _ | sc
    · exact ⟨r0, rfl⟩
    · obtain ⟨st', r, hk⟩ := pDelEdge_ok (h p sc rfl rfl)
      simp only []
      rw [thenPrim_step (f := fun st => st.pDelEdge (p, sc)) hk]
      exact ⟨_, rfl⟩

/-- the linking `AddEdge`s are accepted when their end points are nodes -/
theorem finish_ok {s2 : St} {recs0 : List PrimRec} {pred succ : Option Node} {node : Node}
    (hn : node ∈ s2.ids) (hp : ∀ p, pred = some p → p ∈ s2.ids)
    (hs : ∀ sc, succ = some sc → sc ∈ s2.ids) :
    ∃ recs, (addNodeFinish s2 recs0 pred succ node).2 = .ok recs := by
  unfold addNodeFinish
  simp only []
  rcases pred with _ | p
  · rcases succ with _ | sc
    · exact ⟨recs0, rfl⟩
    · obtain ⟨st', r, hk, _⟩ := pAddEdge_ok hn (hs sc rfl)
      simp only []
      rw [thenPrim_step (f := fun st => st.pAddEdge (node, sc) []) hk]
      exact ⟨_, rfl⟩
  · obtain ⟨st1, r1, hk1, hid1⟩ := pAddEdge_ok (hp p rfl) hn
    rcases succ with _ | sc
    · simp only []
      rw [thenPrim_step (f := fun st => st.pAddEdge (p, node) []) hk1]
      exact ⟨_, rfl⟩
    · obtain ⟨st2, r2, hk2, _⟩ := pAddEdge_ok (st := st1) (by rw [hid1]; exact hn)
        (by rw [hid1]; exact hs sc rfl)
      simp only []
      rw [thenPrim_step (f := fun st => st.pAddEdge (p, node) []) hk1,
        thenPrim_step (f := fun st => st.pAddEdge (node, sc) []) hk2]
      exact ⟨_, rfl⟩

/-! ## §3 `uAddNode` is accepted on the late paths -/

/-- path (i) does not occur: after accepted division checks the `DeleteEdge` of the skip edge is
    accepted -/
theorem addNodeA1_ok {s : St} {a : AddNodeArgs} {tid0 time : Nat} {r0 : List PrimRec}
    (hV : Valid s) (hP : (R2D.preOut s a tid0 time).2 = .ok r0) :
    ∃ recs1, (R3C.addNodeA1 s a tid0 time).2 = .ok recs1 := by
  have hVN := R2D.valid_trackNeighbors hV (addTid s tid0 time) time
  have hN := R2D.nbrFacts hV tid0 time
  unfold R3C.addNodeA1
  refine a1_ok_gen hP (fun p sc hp hs => ?_)
  obtain ⟨he, ho⟩ := nbr_edge hVN hN hp hs
  have hpo : R2D.preOut s a tid0 time =
      ((s.trackNeighbors (addTid s tid0 time) time).1, .ok []) := by
    unfold R2D.preOut
    rw [hp, hs]
    exact pre_splice hVN a.force he ho
  rw [hpo]
  exact he

/-- **`UserAddNode` is accepted on both late paths** -/
theorem addNodeLate_ok {s : St} {a : AddNodeArgs} (hI : Inv s) (hl : AddNodeLate s a) :
    ∃ recs, (s.uAddNode a).2 = .ok recs := by
  obtain ⟨time, tid0, r0, ht, hd, hnot, hP, hcase⟩ := hl
  have hV := hI.valid
  have hnode' : s.hasNode a.node = false := by
    cases hh : s.hasNode a.node with
    | false => rfl
    | true => exact absurd ((hasNode_iff _ _).1 hh) hnot
  obtain ⟨recs1, h1⟩ := addNodeA1_ok (a := a) hV hP
  have hadd : ∃ s2 r, (R3C.addNodeA1 s a tid0 time).1.pAddNode (R3C.addNodeRec s a tid0 time)
      a.pixels = .ok (s2, r) := by
    rcases hcase with ⟨err, herr⟩ | ⟨_, s2, r, _, hadd⟩
    · rw [h1] at herr; cases herr
    · exact ⟨s2, r, hadd⟩
  obtain ⟨s2, r, hadd⟩ := hadd
  -- the state before AddNode
  have hVN := R2D.valid_trackNeighbors hV (addTid s tid0 time) time
  have hN := R2D.nbrFacts hV tid0 time
  obtain ⟨hPre, hnt0⟩ := R2D.pre_ok hVN hN hP
  have hnt : (R2D.preOut s a tid0 time).1.nt = s.nt := by
    unfold R2D.preOut; rw [hnt0, G_nt (G_trackNeighbors s _ time)]
  have hq := R3C.a1_q1 hV hI.good hI.edge h1
  obtain ⟨hT, hL⟩ := (PC.bookOK_iff _).1 hq.book
  have hids1 : (R3C.addNodeA1 s a tid0 time).1.ids = s.ids := hq.ids.trans (R2D.ids_of_nt hnt)
  have hfresh : (R3C.addNodeRec s a tid0 time).id ∉ (R3C.addNodeA1 s a tid0 time).1.ids := by
    rw [hids1]; exact hnot
  have hview := R2D.pAddNode_view hT hL hfresh hadd
  have hmem2 : ∀ m, m ∈ (R2D.preOut s a tid0 time).1.ids → m ∈ s2.ids := fun m hm =>
    (hview.ids m).2 (Or.inl (by rw [hq.ids]; exact hm))
  have hnode2 : a.node ∈ s2.ids := (hview.ids a.node).2 (Or.inr rfl)
  -- the run
  have heq := R2D.uAddNode_eq' s a ht hd hnode'
  rw [hP] at heq
  simp only [] at heq
  rw [R2D.addNodeTail_eq] at heq
  have heq' : s.uAddNode a = R2D.tailCore (R3C.addNodeA1 s a tid0 time)
      (s.trackNeighbors (addTid s tid0 time) time).2.1
      (s.trackNeighbors (addTid s tid0 time) time).2.2 (R3C.addNodeRec s a tid0 time) a.pixels := heq
  rw [heq']
  unfold R2D.tailCore
  rw [h1]
  simp only []
  rw [hadd]
  simp only []
  exact finish_ok hnode2 (fun p hp => hmem2 p (hPre.p_mem p hp).1)
    (fun sc hs => hmem2 sc (hPre.s_mem sc hs).1)

/-- **the field `addNodeLate` of `RefusalHyps`**: a refusal on a late path is contradictory -/
theorem addNodeLate_holds (s : St) (a : AddNodeArgs) (e : Err) (hI : Inv s)
    (_hpre : OpPre s (.addNode a)) (hl : AddNodeLate s a) (herr : (s.uAddNode a).2 = .error e) :
    E (s.uAddNode a).1 s := by
  obtain ⟨recs, hok⟩ := addNodeLate_ok hI hl
  rw [hok] at herr
  cases herr

end Ft.R3D
