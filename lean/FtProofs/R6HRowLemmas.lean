/-
  R6H — one row of the display-name file through the importer with the registry's key map:
  the re-imported node agrees with the original one (`decodeRow_agrees`).
-/
import FtProofs.R6HLemmas
namespace Ft.R6H
open Ft Ft.Export Ft.ExportDisplay

/-- Table vs registry, per node (decidable): the export loop does not raise (`writeOk`: a
    list-named feature holds a list of that length), and a single-named other feature holds one
    value. -/
def NodeOK (feats : List FeatDesc) (n : NodeRec) : Prop :=
  (∀ f ∈ feats, writeOk n f = true) ∧
  (∀ f ∈ feats, f.role = Role.other → isOne f.cols = true →
    ((alook f.key n.feats).map List.length).getD 1 = 1)

instance (feats : List FeatDesc) (n : NodeRec) : Decidable (NodeOK feats n) := by
  unfold NodeOK
  exact inferInstance

/-- the position is loaded: "pos" is mapped to a list of columns whose cells are the coordinates -/
def PosLoads (s : Tracks) (feats : List FeatDesc) (m : NameMap) (n : NodeRec) : Prop :=
  ∃ cs, (("pos" : Name), Cols.many cs) ∈ m ∧ cs.map (cellAt s feats n) = n.pos.map Cell.val

/-- the re-imported node `d` is the original node `n`: id, time, position; track / lineage id when
    the registry has them and geff's validation of the loaded ids passed (`tv` / `lv`; otherwise
    they are dropped and recomputed by the importer); every registered other feature with its value
    (missing stays missing); nothing else -/
structure Agrees (feats : List FeatDesc) (tv lv : Bool) (n : NodeRec) (d : DNode) : Prop where
  id : d.id = n.id
  time : d.time = n.time
  pos : d.pos = n.pos
  tid : (∃ f ∈ feats, f.role = Role.tid) → tv = true → d.tid = some n.tid
  lin : (∃ f ∈ feats, f.role = Role.lin) → lv = true → d.lin = some n.lin
  tid_dropped : tv = false → d.tid = none
  lin_dropped : lv = false → d.lin = none
  feat : ∀ f ∈ feats, f.role = Role.other → alook f.keyName d.feats = alook f.key n.feats
  only : ∀ k vs, alook k d.feats = some vs → ∃ f ∈ feats, f.role = Role.other ∧ f.keyName = k
  ints : d.ints = []

theorem stack_vals (vs : List Val) : stackCells (vs.map Cell.val) = Cell.vals vs := by
  unfold stackCells
  rw [List.map_map, allSome_map (cellVal ∘ Cell.val) id vs (fun v _ => rfl)]
  simp

theorem stack_empty (cs : List Cell) (hne : cs ≠ []) (h : ∀ c ∈ cs, c = Cell.empty) :
    stackCells cs = Cell.empty := by
  cases cs with
  | nil => exact absurd rfl hne
  | cons c r =>
    have : c = Cell.empty := h c (List.mem_cons_self ..)
    subst this
    simp [stackCells, allSome, cellVal]

theorem cellNat_stack (cs : List Cell) : cellNat (stackCells cs) = none := by
  unfold stackCells
  cases allSome (cs.map cellVal) <;> rfl

theorem cellNat_single_vals (o : Option (List Val)) : cellNat (singleCell (o.map AVal.vals)) = none := by
  cases o with
  | none => rfl
  | some vs =>
    cases vs with
    | nil => rfl
    | cons v r => cases r <;> rfl

theorem one_of_nat {n : NodeRec} {f : FeatDesc} (hw : writeOk n f = true) {k : Nat}
    (ha : attrOf n f = some (AVal.nat k)) : ∃ c, f.cols = Cols.one c := by
  cases hc : f.cols with
  | one c => exact ⟨c, rfl⟩
  | many cs =>
    unfold writeOk at hw
    rw [hc, ha] at hw
    cases hw

theorem parentOfCell_parentCell (s : Tracks) (n : NodeRec) :
    parentOfCell (parentCell s n) = some (parentOf s n.id) := by
  unfold parentCell
  cases parentOf s n.id <;> rfl

section row
variable (s : Tracks) (nax : Nat) (feats : List FeatDesc) (ns : List NodeRec)
  (hR : RegOK nax feats ns) (n : NodeRec)

/-- the loaded properties of node `n` -/
def props2 : DictD :=
  combine (nameMapOf nax feats ns) (props1 (nameMapOf nax feats ns) (rowD s feats n))

include hR

theorem look_one {k c : Name} (he : (k, Cols.one c) ∈ nameMapOf nax feats ns) (h1 : k ≠ "parent_id")
    (h2 : k ≠ "id") : alook k (props2 s nax feats ns n) = some (cellAt s feats n c) := by
  have hM := hR.mapOK
  unfold props2
  rw [props2_spec hM, alook_of_mem_nodup _ hM.keys_nodup _ _ he]
  simp only [h1, h2, or_self, if_false]
  rfl

theorem look_many {k : Name} {cs : List Name} (he : (k, Cols.many cs) ∈ nameMapOf nax feats ns) :
    alook k (props2 s nax feats ns n) = some (stackCells (cs.map (cellAt s feats n))) := by
  have hM := hR.mapOK
  unfold props2
  rw [props2_spec hM, alook_of_mem_nodup _ hM.keys_nodup _ _ he]
  rfl

theorem look_none {k : Name} (he : alook k (nameMapOf nax feats ns) = none) :
    alook k (props2 s nax feats ns n) = none := by
  have hM := hR.mapOK
  unfold props2
  rw [props2_spec hM, he]

theorem look_id : alook "id" (props2 s nax feats ns n) = none ∧
    alook "parent_id" (props2 s nax feats ns n) = none := by
  have hM := hR.mapOK
  unfold props2
  constructor
  · rw [props2_spec hM, alook_of_mem_nodup _ hM.keys_nodup "id" (Cols.one idName) (by simp [nameMapOf])]
    simp
  · rw [props2_spec hM,
      alook_of_mem_nodup _ hM.keys_nodup "parent_id" (Cols.one parentName) (by simp [nameMapOf])]
    simp

/-- a feature whose value is an int (time, track id, lineage id) is loaded under its std key -/
theorem look_nat (hok : NodeOK feats n) (f : FeatDesc) (hf : f ∈ feats) (k : Nat)
    (ha : attrOf n f = some (AVal.nat k)) (hrole : ∀ i, f.role ≠ Role.axis i)
    (hno : f.role ≠ Role.other) (h1 : stdKey f ≠ "parent_id") (h2 : stdKey f ≠ "id") :
    alook (stdKey f) (props2 s nax feats ns n) = some (Cell.nat k) := by
  obtain ⟨c, hc⟩ := one_of_nat (hok.1 f hf) ha
  have he : (stdKey f, Cols.one c) ∈ nameMapOf nax feats ns := by
    apply mem_nameMapOf_of_feat hf
    unfold entriesOf
    cases hr : f.role with
    | axis i => exact absurd hr (hrole i)
    | other => exact absurd hr hno
    | time => simp [hc]
    | pos => simp [hc]
    | tid => simp [hc]
    | lin => simp [hc]
  rw [look_one s nax feats ns hR n he h1 h2,
    cellAt_one s feats n hR.1 hR.2.1 f hf c hc, ha]
  rfl

/-- a registered other feature comes back with its value -/
theorem look_other (hn : n ∈ ns) (hok : NodeOK feats n) (f : FeatDesc) (hf : f ∈ feats)
    (hrole : f.role = Role.other) :
    (alook f.keyName (props2 s nax feats ns n)).bind cellVals = alook f.key n.feats := by
  have hattr : attrOf n f = (alook f.key n.feats).map AVal.vals := by
    unfold attrOf; rw [hrole]
  have hk1 : f.keyName ≠ "parent_id" := (hR.2.1 f hf).2
  have hk2 : f.keyName ≠ "id" := (hR.2.1 f hf).1
  by_cases hl : live ns f = true
  · have he : (f.keyName, f.cols) ∈ nameMapOf nax feats ns := by
      apply mem_nameMapOf_of_feat hf
      unfold entriesOf
      rw [hrole]
      simp [hl]
    cases hc : f.cols with
    | one c =>
      rw [hc] at he
      rw [look_one s nax feats ns hR n he hk1 hk2, cellAt_one s feats n hR.1 hR.2.1 f hf c hc, hattr]
      have hlen := hok.2 f hf hrole (by rw [hc]; rfl)
      cases hv : alook f.key n.feats with
      | none => rfl
      | some vs =>
        rw [hv] at hlen
        simp only [Option.map_some, Option.getD_some] at hlen
        cases vs with
        | nil => simp at hlen
        | cons v r =>
          cases r with
          | nil => rfl
          | cons w r' => simp at hlen
    | many cs =>
      rw [hc] at he
      rw [look_many s nax feats ns hR n he]
      have hne : cs ≠ [] := (hR.mapOK.many_ok _ _ he).1
      cases hv : alook f.key n.feats with
      | none =>
        have ha : attrOf n f = none := by rw [hattr, hv]; rfl
        rw [stack_empty _ (by simpa using hne) (by
          intro c hcm
          obtain ⟨c0, hc0, rfl⟩ := List.mem_map.mp hcm
          exact cellAt_many_none s feats n hR.1 hR.2.1 f hf cs hc ha c0 hc0)]
        rfl
      | some vs =>
        have ha : attrOf n f = some (AVal.vals vs) := by rw [hattr, hv]; rfl
        have hlen : cs.length = vs.length := by
          have := hok.1 f hf
          unfold writeOk at this
          rw [hc, ha] at this
          simpa using this
        rw [cellAt_many s feats n hR.1 hR.2.1 f hf cs hc vs ha hlen, stack_vals]
        rfl
  · -- no node of the file has a value: the feature is not mapped
    have hnone : alook f.key n.feats = none := by
      cases hv : alook f.key n.feats with
      | none => rfl
      | some vs =>
        exfalso
        apply hl
        unfold live
        rw [List.any_eq_true]
        exact ⟨n, hn, by rw [hv]; rfl⟩
    rw [hnone]
    cases hm : alook f.keyName (nameMapOf nax feats ns) with
    | none => rw [look_none s nax feats ns hR n hm]; rfl
    | some cl =>
      exfalso
      obtain ⟨g, hg, hgr, hgk, _, hgl⟩ :=
        entry_noncore (alook_mem hm) (hR.2.2.2.2.2.2 f hf hrole) hk2 hk1
      have hgf : g = f :=
        nodup_map_inj FeatDesc.keyName _ hR.2.2.2.2.2.1 g
          (List.mem_filter.mpr ⟨hg, by simp [hgr]⟩) f (List.mem_filter.mpr ⟨hf, by simp [hrole]⟩) hgk
      exact hl (hgf ▸ hgl)

/-- a loaded property under a key that is not id/parent/time/pos/track id/lineage id belongs to a
    registered other feature and is not an int -/
theorem look_noncore {k : Name} {c : Cell} (h : alook k (props2 s nax feats ns n) = some c)
    (hc : k ∉ coreKeys) :
    (∃ g ∈ feats, g.role = Role.other ∧ g.keyName = k) ∧ cellNat c = none := by
  have hM := hR.mapOK
  have hid := look_id s nax feats ns hR n
  have h1 : k ≠ "id" := fun e => by rw [e, hid.1] at h; cases h
  have h2 : k ≠ "parent_id" := fun e => by rw [e, hid.2] at h; cases h
  cases hm : alook k (nameMapOf nax feats ns) with
  | none => rw [look_none s nax feats ns hR n hm] at h; cases h
  | some cl =>
    have he := alook_mem hm
    obtain ⟨g, hg, hgr, hgk, hgc, _⟩ := entry_noncore he hc h1 h2
    refine ⟨⟨g, hg, hgr, hgk⟩, ?_⟩
    cases cl with
    | many cs =>
      rw [look_many s nax feats ns hR n he] at h
      cases h
      exact cellNat_stack _
    | one c0 =>
      rw [look_one s nax feats ns hR n he h2 h1] at h
      cases h
      rw [cellAt_one s feats n hR.1 hR.2.1 g hg c0 hgc]
      have : attrOf n g = (alook g.key n.feats).map AVal.vals := by unfold attrOf; rw [hgr]
      rw [this]
      exact cellNat_single_vals _

/-- Decoding the row of node `n` gives back node `n` and its parent link. -/
theorem decodeRow_agrees (tv lv : Bool) (hn : n ∈ ns) (hok : NodeOK feats n)
    (ht : ∃ f ∈ feats, f.role = Role.time) (hp : PosLoads s feats (nameMapOf nax feats ns) n) :
    ∃ d, decodeRowD tv lv (flattenMap (nameMapOf nax feats ns)) (nameMapOf nax feats ns)
        (rowD s feats n) = some (d, parentOf s n.id) ∧ Agrees feats tv lv n d := by
  have hM := hR.mapOK
  obtain ⟨hci, hcp⟩ := cellAt_id s feats n hR.1 hR.2.1
  have hrow := decodeRowD_eq hM tv lv (rowD s feats n) idName parentName (by simp [nameMapOf])
    (by simp [nameMapOf]) n.id (parentOf s n.id) hci (by
      show parentOfCell (cellAt s feats n parentName) = _
      rw [hcp]; exact parentOfCell_parentCell s n)
  -- time
  obtain ⟨ft, hft, hftr⟩ := ht
  have htime : alook "time" (props2 s nax feats ns n) = some (Cell.nat n.time) := by
    have := look_nat s nax feats ns hR n hok ft hft n.time (by unfold attrOf; rw [hftr])
      (fun i => by rw [hftr]; simp) (by rw [hftr]; simp) (by simp [stdKey, hftr]) (by simp [stdKey, hftr])
    simpa [stdKey, hftr] using this
  -- position
  obtain ⟨cs, hcs, hcells⟩ := hp
  have hpos : alook "pos" (props2 s nax feats ns n) = some (Cell.vals n.pos) := by
    rw [look_many s nax feats ns hR n hcs, hcells, stack_vals]
  have hnd : (keys (props2 s nax feats ns n)).Nodup := props2_nodup hM _
  refine ⟨⟨n.id, n.time,
    if tv then (alook "track_id" (props2 s nax feats ns n)).bind cellNat else none,
    if lv then (alook "lineage_id" (props2 s nax feats ns n)).bind cellNat else none, n.pos,
    otherFeats (props2 s nax feats ns n), otherInts (props2 s nax feats ns n)⟩, ?_, ?_⟩
  · rw [hrow]
    show Option.map _ (nodeOfProps tv lv n.id (props2 s nax feats ns n)) = _
    unfold nodeOfProps
    rw [htime, hpos]
    rfl
  · refine ⟨rfl, rfl, rfl, ?_, ?_, fun h => by simp [h], fun h => by simp [h], ?_, ?_, ?_⟩
    · rintro ⟨f, hf, hfr⟩ htv
      show (if tv then (alook "track_id" (props2 s nax feats ns n)).bind cellNat else none) = _
      rw [if_pos htv]
      have := look_nat s nax feats ns hR n hok f hf n.tid (by unfold attrOf; rw [hfr])
        (fun i => by rw [hfr]; simp) (by rw [hfr]; simp) (by simp [stdKey, hfr]) (by simp [stdKey, hfr])
      simp only [stdKey, hfr] at this
      rw [this]; rfl
    · rintro ⟨f, hf, hfr⟩ hlv
      show (if lv then (alook "lineage_id" (props2 s nax feats ns n)).bind cellNat else none) = _
      rw [if_pos hlv]
      have := look_nat s nax feats ns hR n hok f hf n.lin (by unfold attrOf; rw [hfr])
        (fun i => by rw [hfr]; simp) (by rw [hfr]; simp) (by simp [stdKey, hfr]) (by simp [stdKey, hfr])
      simp only [stdKey, hfr] at this
      rw [this]; rfl
    · intro f hf hfr
      show alook f.keyName (otherFeats (props2 s nax feats ns n)) = _
      rw [alook_otherFeats _ hnd,
        if_neg (by simpa using hR.2.2.2.2.2.2 f hf hfr)]
      exact look_other s nax feats ns hR n hn hok f hf hfr
    · intro k vs hk
      change alook k (otherFeats (props2 s nax feats ns n)) = some vs at hk
      rw [alook_otherFeats _ hnd] at hk
      by_cases hc : k ∈ coreKeys
      · rw [if_pos (by simpa using hc)] at hk; cases hk
      · rw [if_neg (by simpa using hc)] at hk
        cases hl : alook k (props2 s nax feats ns n) with
        | none => rw [hl] at hk; cases hk
        | some c => exact (look_noncore s nax feats ns hR n hl hc).1
    · show otherInts (props2 s nax feats ns n) = []
      apply otherInts_nil
      intro k c hmem hc
      have hl := alook_of_mem_nodup _ hnd k c hmem
      exact (look_noncore s nax feats ns hR n hl (by simpa using hc)).2

end row

end Ft.R6H
