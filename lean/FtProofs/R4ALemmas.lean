/-
  FtProofs.R4ALemmas — package R4A: **sound executable checkers for the hypotheses of the
  whole-history theorems** (`C01_user_all`, `C02_session_valid`, `C03_reach`, `C01_undo_restores`,
  `C11_updateSeg_refused`).

  * `invB s : Bool`            with `invB_sound : invB s = true → Ft.R3D.Inv s`
  * `opPreB s op : Bool`       with `opPreB_sound : opPreB s op = true → Ft.R3D.OpPre s op`
  * `opOKB`, `sessOKB s ops`   with `sessOKB_sound : sessOKB s ops = true → Ft.R3D.SessOK s ops`
  * `invAlongB s ops`          `invB` at the start state and after every step (test helper)
  * `invBits s`                the eight component answers `[valid, keys, edgeReg, edgeIou, nodeReg,
                               nodeVal, segOK, misc]` (`invB` = their conjunction), for the report

  Everything is core-Lean computable (Boolean folds over the lists of the state; the only
  `Decidable` instances used are `Nat` / `Val` / `Option` equality, `List.Nodup` and the structural
  instance of `R2G.PaintPre`), so that `MainValid.lean` can call the checkers in a compiled binary.

  Completeness (not proved, but every clause is written as the *record-level reading* of the clause
  of the invariant, and the readings are equivalent on states with duplicate-free ids / attribute
  keys, which `validB` and `keysB` check first):
  * `validB` = `R2D.validB`: `forestB` is proved `↔ Forest`; `tidB`, `tk_linOKB`, `bookB` test the
    clauses of `TidOK` / `LinOK` / `BookOK` literally over `ids` / `edgeList` / the lookup entries.
  * `edgeInvB`, `nodeInvB`: the clauses over records; `cur` compares `(alook k _).getD none` (what
    `otherOf` / `obsAttrs` read), not `alook k _ = some _`, so no value is required to be *stored*
    when the snapshot is `None`.
  * `segOKB`: literal.
  * `opPreB (.paint …)`: the existential frame `t0` of `PaintArgs` is instantiated with the frame
    of the first painted pixel (the only possible witness when there is a pixel; any `t0` works for
    an empty group list).
  Measured (private test binary over the harness' real sessions, ≈ 30 000 states, families C01, C02,
  C03, C07, C08, C10): no state reached by a session with `invB = true` at the start and
  `opOKB = true` at every step was answered `false` (the theorem `C03_reach_checked` says such an
  answer could only be an incompleteness).  The only `invB = false` start states were states with a
  custom edge attribute under an *unregistered* key (`edgeReg`: a genuine violation of `EdgeInv`).
  Known, intended `false` answers: `enable` / `disable` (not covered by the theorems), an add-node
  with a caller-supplied lineage id, an add-node on an array state without pixels / time
  (`R2G.StepPre`), an update-attrs writing a non-`None` value under an unregistered key.
-/
import FtProofs.R3DHistLemmas

namespace Ft.R4A
open Ft Ft.St Ft.R2A1 Ft.R3P Ft.R3D List

/-! ## §1 `Valid`, `Good` -/

/-- `St.Valid` (forest, exact track / lineage ids, exact lookups and maxima, lineage feature on) -/
def validB (s : St) : Bool := R2D.validB s

theorem validB_sound {s : St} (h : validB s = true) : s.Valid := R2D.validB_sound h

/-- what `Good` asks beyond `Valid`: attribute dictionaries have distinct keys -/
def keysB (s : St) : Bool :=
  s.nodes.all (fun r => decide (r.other.map (·.1)).Nodup) &&
  s.edges.all (fun r => decide (r.attrs.map (·.1)).Nodup)

theorem good_of_b {s : St} (hV : s.Valid) (h : keysB s = true) : Good s := by
  unfold keysB at h
  simp only [Bool.and_eq_true, List.all_eq_true, decide_eq_true_eq] at h
  exact ⟨WF.of_invariants hV.forest hV.book h.1 h.2, MaxOK.of_book hV.forest.nodup_nodes hV.book⟩

/-! ## §2 `EdgeInv` -/

/-- every non-`None` attribute of the dictionary is a registered key -/
def attrsRegB (reg : List Key) (l : List (Key × Val)) : Bool :=
  l.all (fun kv => decide (kv.2 = Val.none) || reg.contains kv.1)

theorem attrsRegB_sound {reg : List Key} {l : List (Key × Val)} (h : attrsRegB reg l = true)
    (kv : Key × Val) (hkv : kv ∈ l) (hv : kv.2 ≠ Val.none) : kv.1 ∈ reg := by
  unfold attrsRegB at h
  rw [List.all_eq_true] at h
  have := h kv hkv
  simp only [Bool.or_eq_true, decide_eq_true_eq, List.contains_iff_mem] at this
  rcases this with h1 | h1
  · exact absurd h1 hv
  · exact h1

theorem obsAttrs_reg {reg : List Key} {l : List (Key × Val)} (h : attrsRegB reg l = true) (k : Key)
    (hk : obsAttrs l k ≠ Val.none) : k ∈ reg := by
  unfold obsAttrs at hk
  cases ha : alook k l with
  | none => rw [ha] at hk; exact absurd rfl hk
  | some v => rw [ha] at hk; exact attrsRegB_sound h (k, v) (R2A1.alook_mem ha) hk

/-- every visible edge attribute is a registered feature -/
def edgeRegB (s : St) : Bool := s.edges.all (fun r => attrsRegB s.regEdge r.attrs)

/-- an active IoU key (with array) is registered and current on every edge -/
def edgeIouB (s : St) : Bool :=
  match s.iouKey with
  | none => true
  | some k =>
    !(s.iouActive && s.seg.isSome) ||
      (s.regEdge.contains k && s.edges.all (fun r => decide (obsAttrs r.attrs k = s.iouOf r.e)))

def edgeInvB (s : St) : Bool := edgeRegB s && edgeIouB s

theorem edgeInvB_sound {s : St} (h : edgeInvB s = true) : EdgeInv s := by
  unfold edgeInvB edgeRegB edgeIouB at h
  simp only [Bool.and_eq_true, List.all_eq_true] at h
  obtain ⟨h1, h2⟩ := h
  have key : ∀ k, s.iouKey = some k → s.iouActive = true → s.seg.isSome = true →
      k ∈ s.regEdge ∧ ∀ r ∈ s.edges, obsAttrs r.attrs k = s.iouOf r.e := by
    intro k hk ha hs
    rw [hk] at h2
    simp only [ha, hs, Bool.and_self, Bool.not_true, Bool.false_or, Bool.and_eq_true,
      List.contains_iff_mem, List.all_eq_true, decide_eq_true_eq] at h2
    exact h2
  refine ⟨?_, fun ha hs k hk => (key k hk ha hs).1, ?_⟩
  · rintro o ⟨r, hr, rfl⟩ k hk
    exact obsAttrs_reg (h1 r hr) k hk
  · rintro k hk ha hs o ⟨r, hr, rfl⟩
    exact (key k hk ha hs).2 r hr

/-! ## §3 `NodeInv` -/

/-- without array: every node has its position -/
def nodePosB (s : St) : Bool :=
  s.nodes.all (fun r => s.posKeys.all (fun k => !decide (obsAttrs r.other k = Val.none)))

/-- with array: no node id `0`, every active regionprops value is the snapshot of the current mask -/
def nodeCurB (s : St) (g : Seg) : Bool :=
  s.nodes.all (fun r =>
    decide (r.id ≠ 0) &&
    (s.rpActive.isEmpty ||
      (let m := g.maskVal r.time r.id
       s.rpActive.all (fun k => decide (obsAttrs r.other k = m)))))

/-- every visible node attribute is a registered feature; active regionprops keys are registered -/
def nodeRegB (s : St) : Bool :=
  s.nodes.all (fun r => attrsRegB s.regNode r.other) && s.rpActive.all (fun k => s.regNode.contains k)

/-- positions present (no array) / regionprops values current and no id `0` (array) -/
def nodeValB (s : St) : Bool :=
  match s.seg with
  | none => nodePosB s
  | some g => nodeCurB s g

def nodeInvB (s : St) : Bool := nodeRegB s && nodeValB s

theorem otherOf_of_find {s : St} {n : Node} {r : NodeRec} (hf : s.findNode n = some r) (k : Key) :
    s.otherOf n k = obsAttrs r.other k := by
  unfold otherOf obsAttrs; rw [hf]

theorem nodeCurB_sound {s : St} {g : Seg} (h : nodeCurB s g = true) (r : NodeRec) (hr : r ∈ s.nodes) :
    r.id ≠ 0 ∧ ∀ k ∈ s.rpActive, obsAttrs r.other k = g.maskVal r.time r.id := by
  unfold nodeCurB at h
  rw [List.all_eq_true] at h
  have := h r hr
  simp only [Bool.and_eq_true, Bool.or_eq_true, decide_eq_true_eq, List.all_eq_true,
    List.isEmpty_iff] at this
  refine ⟨this.1, fun k hk => ?_⟩
  rcases this.2 with he | hc
  · rw [he] at hk; cases hk
  · exact hc k hk

theorem nodeInvB_sound {s : St} (h : nodeInvB s = true) : R3C.NodeInv s := by
  unfold nodeInvB nodeRegB nodeValB at h
  simp only [Bool.and_eq_true, List.all_eq_true, List.contains_iff_mem] at h
  obtain ⟨⟨h1, h2⟩, h3⟩ := h
  refine ⟨fun n k hk => ?_, h2, fun hs n hn k hk => ?_, fun g hg n t ht k hk => ?_, fun g hg h0 => ?_⟩
  · unfold otherOf at hk
    cases hf : s.findNode n with
    | none => rw [hf] at hk; exact absurd rfl hk
    | some r =>
      rw [hf] at hk
      exact obsAttrs_reg (h1 r (PC.findNode_some_mem hf).1) k hk
  · obtain ⟨r, hr⟩ := tk_mem_ids_iff.1 hn
    rw [otherOf_of_find hr]
    have h3' : nodePosB s = true := by rw [hs] at h3; exact h3
    unfold nodePosB at h3'
    simp only [List.all_eq_true, Bool.not_eq_true', decide_eq_false_iff_not] at h3'
    exact h3' r (PC.findNode_some_mem hr).1 k hk
  · have h3' : nodeCurB s g = true := by rw [hg] at h3; exact h3
    unfold timeOf at ht
    cases hf : s.findNode n with
    | none => rw [hf] at ht; cases ht
    | some r =>
      rw [hf] at ht
      have ht' : r.time = t := by simpa using ht
      obtain ⟨hr, hid⟩ := PC.findNode_some_mem hf
      rw [otherOf_of_find hf, (nodeCurB_sound h3' r hr).2 k hk, ht', hid]
  · have h3' : nodeCurB s g = true := by rw [hg] at h3; exact h3
    obtain ⟨r, hr, hid⟩ := List.mem_map.1 h0
    exact (nodeCurB_sound h3' r hr).1 hid

/-! ## §4 `SegOK`, active ⊆ available, frame size -/

def segOKB (s : St) : Bool :=
  match s.seg with
  | none => true
  | some g =>
    s.nodes.all (fun r => !(g.pixelsOf r.time r.id).isEmpty) &&
    (List.range g.data.length).all (fun i =>
      let v := g.data.getD i 0
      v == 0 || s.nodes.any (fun r => r.id == v && i / g.frame == r.time))

theorem segOKB_sound {s : St} (h : segOKB s = true) : SegOK s := by
  intro g hg
  unfold segOKB at h
  rw [hg] at h
  simp only [Bool.and_eq_true, List.all_eq_true, List.mem_range, Bool.or_eq_true, beq_iff_eq,
    List.any_eq_true, Bool.not_eq_true', List.isEmpty_eq_false_iff] at h
  refine ⟨h.1, fun i hi hne => ?_⟩
  rcases h.2 i hi with h0 | ⟨r, hr, h1, h2⟩
  · exact absurd h0 hne
  · exact ⟨r, hr, h1, h2⟩

def miscB (s : St) : Bool :=
  s.rpActive.all (fun k => s.rpAvail.contains k) &&
  (match s.seg with
   | none => true
   | some g => decide (0 < g.frame))

/-! ## §5 the bundle invariant -/

/-- **executable check of the bundle invariant** `Ft.R3D.Inv` -/
def invB (s : St) : Bool :=
  validB s && keysB s && edgeInvB s && nodeInvB s && segOKB s && miscB s

theorem invB_sound {s : St} (h : invB s = true) : Inv s := by
  unfold invB at h
  simp only [Bool.and_eq_true] at h
  obtain ⟨⟨⟨⟨⟨h1, h2⟩, h3⟩, h4⟩, h5⟩, h6⟩ := h
  have hV := validB_sound h1
  unfold miscB at h6
  simp only [Bool.and_eq_true, List.all_eq_true, List.contains_iff_mem] at h6
  refine ⟨hV, good_of_b hV h2, edgeInvB_sound h3, nodeInvB_sound h4, segOKB_sound h5, h6.1,
    fun g hg => ?_⟩
  have := h6.2
  rw [hg] at this
  simpa using this

/-- which component fails (for the harness report): the bits
    `[valid, keys, edgeReg, edgeIou, nodeReg, nodeVal, segOK, misc]`; `invB` is their conjunction -/
def invBits (s : St) : List Bool :=
  [validB s, keysB s, edgeRegB s, edgeIouB s, nodeRegB s, nodeValB s, segOKB s, miscB s]

theorem invB_eq_bits (s : St) : invB s = (invBits s).all id := by
  simp [invB, invBits, edgeInvB, nodeInvB, Bool.and_assoc]

/-! ## §6 `OpPre` -/

def addArgsPreB (s : St) (a : AddNodeArgs) : Bool :=
  decide (a.other.map (·.1)).Nodup && attrsRegB s.regNode a.other &&
  (match s.seg with
   | none => s.posKeys.all (fun k => !decide (obsAttrs a.other k = Val.none))
   | some g =>
     decide (a.node ≠ 0) &&
     (match a.time with
      | none => true
      | some time =>
        (g.pixelsOf time a.node).isEmpty &&
        (match a.pixels with
         | none => true
         | some ps => ps.all (fun p => decide (p < g.data.length) && decide (g.data.getD p 0 = 0) &&
             decide (0 < g.frame) && decide (p / g.frame = time)))))

theorem addArgsPreB_sound {s : St} {a : AddNodeArgs} (h : addArgsPreB s a = true) :
    R3C.AddArgsPre s a := by
  unfold addArgsPreB at h
  simp only [Bool.and_eq_true, decide_eq_true_eq] at h
  obtain ⟨⟨h1, h2⟩, h3⟩ := h
  refine ⟨h1, attrsRegB_sound h2, fun hs k hk => ?_, fun g hg => ?_, fun g time hg ht => ?_,
    fun g ps time hg hp ht p hpm => ?_⟩
  · rw [hs] at h3
    rw [List.all_eq_true] at h3
    simpa using h3 k hk
  · rw [hg] at h3
    simp only [Bool.and_eq_true, decide_eq_true_eq] at h3
    exact h3.1
  · rw [hg] at h3
    simp only [Bool.and_eq_true, decide_eq_true_eq] at h3
    have := h3.2
    rw [ht] at this
    simp only [Bool.and_eq_true, List.isEmpty_iff] at this
    exact this.1
  · rw [hg] at h3
    simp only [Bool.and_eq_true, decide_eq_true_eq] at h3
    have := h3.2
    rw [ht, hp] at this
    simp only [Bool.and_eq_true, List.all_eq_true, decide_eq_true_eq] at this
    have := this.2 p hpm
    exact ⟨this.1.1.1, this.1.1.2, this.1.2, this.2⟩

def stepPreAddB (g : Seg) (a : AddNodeArgs) : Bool :=
  decide (a.node ≠ 0) &&
  (match a.pixels, a.time with
   | some px, some t =>
     px.all (fun p => !decide (p < g.data.length) ||
       ((decide (g.data.getD p 0 = 0) || decide (g.data.getD p 0 = a.node)) && decide (p / g.frame = t))) &&
     px.any (fun p => decide (p < g.data.length))
   | _, _ => false)

theorem stepPreAddB_sound {s : St} {g : Seg} {a : AddNodeArgs} (h : stepPreAddB g a = true) :
    R2G.StepPre s g (.addNode a) := by
  unfold stepPreAddB at h
  simp only [Bool.and_eq_true, decide_eq_true_eq] at h
  obtain ⟨h1, h2⟩ := h
  refine ⟨h1, ?_⟩
  cases hp : a.pixels with
  | none => rw [hp] at h2; cases h2
  | some px =>
    cases ht : a.time with
    | none => rw [hp, ht] at h2; cases h2
    | some t =>
      rw [hp, ht] at h2
      simp only [Bool.and_eq_true, List.all_eq_true, List.any_eq_true, Bool.or_eq_true,
        Bool.not_eq_true', decide_eq_false_iff_not, decide_eq_true_eq] at h2
      refine ⟨px, t, rfl, rfl, fun p hpm hlt => ?_, h2.2⟩
      rcases h2.1 p hpm with h' | h'
      · exact absurd hlt h'
      · exact h'

/-- the frame of the first painted pixel: the only possible witness of `PaintArgs` -/
def paintFrame (g : Seg) (groups : List (List Pix × Nat)) : Nat :=
  ((groups.flatMap (·.1)).head?.getD 0) / g.frame

def paintArgsB (s : St) (g : Seg) (v : Nat) (groups : List (List Pix × Nat)) : Bool :=
  decide (R2G.PaintPre g s.skel v groups (paintFrame g groups)) && decide (groups.map (·.2)).Nodup

theorem paintArgsB_sound {s : St} {g : Seg} {v : Nat} {groups : List (List Pix × Nat)}
    (h : paintArgsB s g v groups = true) : PaintArgs s g v groups := by
  unfold paintArgsB at h
  simp only [Bool.and_eq_true, decide_eq_true_eq] at h
  exact ⟨_, h.1, h.2⟩

def updAttrsPreB (s : St) (attrs : List (Key × Val)) : Bool :=
  attrs.all (fun kv => (decide (kv.2 = Val.none) || s.regNode.contains kv.1) &&
    (s.seg.isSome || !s.posKeys.contains kv.1 || !decide (kv.2 = Val.none)))

/-- **executable check of the argument preconditions** `Ft.R3D.OpPre` -/
def opPreB (s : St) : Op → Bool
  | .addNode a => a.lin.isNone && addArgsPreB s a &&
      (match s.seg with
       | none => true
       | some g => stepPreAddB g a)
  | .paint v groups _ _ =>
      (match s.seg with
       | none => true
       | some g => paintArgsB s g v groups)
  | .updAttrs _ attrs => updAttrsPreB s attrs
  | .enable _ _ => false
  | .disable _ => false
  | _ => true

theorem opPreB_sound {s : St} {op : Op} (h : opPreB s op = true) : OpPre s op := by
  cases op with
  | addNode a =>
    simp only [opPreB, Bool.and_eq_true, Option.isNone_iff_eq_none] at h
    refine ⟨h.1.1, addArgsPreB_sound h.1.2, fun g hg => ?_⟩
    have := h.2
    rw [hg] at this
    exact stepPreAddB_sound this
  | paint v groups tid f =>
    intro g hg
    simp only [opPreB] at h
    rw [hg] at h
    exact paintArgsB_sound h
  | updAttrs n attrs =>
    intro kv hkv
    simp only [opPreB, updAttrsPreB, List.all_eq_true] at h
    have := h kv hkv
    simp only [Bool.and_eq_true, Bool.or_eq_true, decide_eq_true_eq, List.contains_iff_mem,
      Bool.not_eq_true', decide_eq_false_iff_not] at this
    refine ⟨fun hv => ?_, fun hs hp => ?_⟩
    · rcases this.1 with h' | h'
      · exact absurd h' hv
      · exact h'
    · rcases this.2 with (h' | h') | h'
      · rw [hs] at h'; cases h'
      · have : s.posKeys.contains kv.1 = true := List.contains_iff_mem.2 hp
        rw [this] at h'; cases h'
      · exact h'
  | enable _ _ => cases h
  | disable _ => cases h
  | addEdge _ _ => trivial
  | delEdge _ => trivial
  | delNode _ => trivial
  | swap _ _ => trivial
  | undo => trivial
  | redo => trivial
  | qNeighbors _ _ => trivial
  | qHasTrack _ _ => trivial
  | qNewIds _ => trivial
  | nop => trivial

/-! ## §7 sessions -/

/-- one admissible operation: undo, redo, a query, or a top-level edit with `opPreB` -/
def opOKB (s : St) : Op → Bool
  | .undo | .redo | .qNeighbors .. | .qHasTrack .. | .qNewIds .. | .nop => true
  | .enable .. | .disable .. => false
  | op => opPreB s op

theorem opOKB_sound {s : St} {op : Op} (h : opOKB s op = true) : OpOK s op := by
  cases op with
  | undo => exact .inl rfl
  | redo => exact .inr (.inl rfl)
  | qNeighbors _ _ => exact .inr (.inr (.inl trivial))
  | qHasTrack _ _ => exact .inr (.inr (.inl trivial))
  | qNewIds _ => exact .inr (.inr (.inl trivial))
  | nop => exact .inr (.inr (.inl trivial))
  | enable _ _ => cases h
  | disable _ => cases h
  | addEdge _ _ => exact .inr (.inr (.inr ⟨rfl, opPreB_sound h⟩))
  | delEdge _ => exact .inr (.inr (.inr ⟨rfl, opPreB_sound h⟩))
  | addNode _ => exact .inr (.inr (.inr ⟨rfl, opPreB_sound h⟩))
  | delNode _ => exact .inr (.inr (.inr ⟨rfl, opPreB_sound h⟩))
  | swap _ _ => exact .inr (.inr (.inr ⟨rfl, opPreB_sound h⟩))
  | paint _ _ _ _ => exact .inr (.inr (.inr ⟨rfl, opPreB_sound h⟩))
  | updAttrs _ _ => exact .inr (.inr (.inr ⟨rfl, opPreB_sound h⟩))

/-- **executable check of an admissible session**: folds `step` and checks `opOKB` at the state
    where each operation is applied -/
def sessOKB : St → List Op → Bool
  | _, [] => true
  | s, op :: ops => opOKB s op && sessOKB (step s op).1 ops

theorem sessOKB_sound : ∀ {s : St} {ops : List Op}, sessOKB s ops = true → SessOK s ops
  | _, [], _ => trivial
  | s, op :: ops, h => by
    simp only [sessOKB, Bool.and_eq_true] at h
    exact ⟨opOKB_sound h.1, sessOKB_sound h.2⟩

/-- `invB` at the start state and after every step (measurement / test helper) -/
def invAlongB : St → List Op → Bool
  | s, [] => invB s
  | s, op :: ops => invB s && invAlongB (step s op).1 ops

theorem invAlongB_sound : ∀ (ops : List Op) (s : St) (t : Timeline St), invAlongB s ops = true →
    ∀ pre, pre <+: ops → Inv (sessFinal s t pre).1
  | [], s, t, h, pre, hp => by
    rw [List.prefix_nil.1 hp]
    exact invB_sound h
  | op :: ops, s, t, h, pre, hp => by
    simp only [invAlongB, Bool.and_eq_true] at h
    cases pre with
    | nil => exact invB_sound h.1
    | cons a pre' =>
      obtain ⟨rfl, hp'⟩ := List.cons_prefix_cons.1 hp
      exact invAlongB_sound ops _ _ h.2 pre' hp'

end Ft.R4A
