/-
  FtProofs.R3DLemmas — package R3D: user-level C01 of a paint (`UserUpdateSegmentation`), read
  against the UNPAINTED start state.

  `St.step (.paint …)` first writes the stroke into the array and then runs `uUpdateSeg` on the
  painted array.  The recorded primitives are lawful with respect to a *shadow run* on the
  unpainted array: the shadow state `sh` has the array `B` (= the unpainted array with the groups
  processed so far zeroed), the real state is `sh.withSeg A` (`A` = the painted array with the same
  groups zeroed).  The relation `Arr` ties `A` to `B`; the user actions commute with the swap
  (`R3DSimLemmas`, `R3DGenLemmas`), so the real run and the shadow run record the same primitives.

  §5  the array relation `Arr` of the group loop.
  §6  the loop invariant `LOk`, one round, the whole loop.
  §7  the final grow / add-node step; `paint_user`.
  §8  session level: `paint_step_ok` (the `ok` half of `PaintLaw`).
-/
import FtProofs.R3DGenLemmas
import FtProofs.R3DSegLemmas
import FtProofs.R3DNodeLemmas

namespace Ft.R3D
open Ft Ft.St Ft.R2A1 Ft.R3P List

/-! ## §5 the array relation -/

theorem map_inj_of_nodup {α β : Type} (f : α → β) : ∀ {l : List α}, (l.map f).Nodup →
    ∀ {x y : α}, x ∈ l → y ∈ l → f x = f y → x = y
  | [], _, _, _, hx, _, _ => by cases hx
  | a :: l, h, x, y, hx, hy, e => by
    rw [map_cons, nodup_cons] at h
    rcases mem_cons.mp hx with hxa | hx' <;> rcases mem_cons.mp hy with hya | hy'
    · rw [hxa, hya]
    · exact absurd (mem_map.mpr ⟨y, hy', by rw [← e, hxa]⟩) h.1
    · exact absurd (mem_map.mpr ⟨x, hx', by rw [e, hya]⟩) h.1
    · exact map_inj_of_nodup f h.2 hx' hy' e

/-- what the stroke preconditions say about the groups, on the unpainted array `g` -/
structure GFacts (g : Seg) (v : Nat) (groups : List Grp) (t0 : Nat) : Prop where
  inr : ∀ grp ∈ groups, ∀ p ∈ grp.1, p < g.data.length ∧ p / g.frame = t0
  prev : ∀ grp ∈ groups, ∀ p ∈ grp.1, g.data.getD p 0 = grp.2
  ne_new : ∀ grp ∈ groups, grp.2 ≠ v
  nonempty : ∀ grp ∈ groups, grp.1 ≠ []
  nd : (groups.map (·.2)).Nodup
  pos : 0 < g.frame

theorem GFacts.label_inj {g : Seg} {v : Nat} {groups : List Grp} {t0 : Nat} (hG : GFacts g v groups t0)
    {x y : Grp} (hx : x ∈ groups) (hy : y ∈ groups) (e : x.2 = y.2) : x = y :=
  map_inj_of_nodup (·.2) hG.nd hx hy e

theorem GFacts.pix_disj {g : Seg} {v : Nat} {groups : List Grp} {t0 : Nat} (hG : GFacts g v groups t0)
    {x y : Grp} (hx : x ∈ groups) (hy : y ∈ groups) {p : Pix} (h1 : p ∈ x.1) (h2 : p ∈ y.1) : x = y :=
  hG.label_inj hx hy ((hG.prev x hx p h1).symm.trans (hG.prev y hy p h2))

/-- a group whose pixels still read `v` in the running array: not yet processed, or a group of
    background pixels (those are never processed) -/
def Pend (groups gs : List Grp) (x : Grp) : Prop := x ∈ gs ∨ (x ∈ groups ∧ x.2 = 0)

/-- the running array `A` of the real run, the array `B` of the unpainted reading, and the groups
    `gs` still to be processed -/
structure Arr (g : Seg) (v : Nat) (groups gs : List Grp) (A B : Seg) : Prop where
  sub : ∀ x ∈ gs, x ∈ groups
  frameA : A.frame = g.frame
  frameB : B.frame = g.frame
  lenA : A.data.length = g.data.length
  lenB : B.data.length = g.data.length
  same : ∀ i, A.data.getD i 0 = B.data.getD i 0 ∨ ∃ x, Pend groups gs x ∧ i ∈ x.1
  pendA : ∀ x, Pend groups gs x → ∀ p ∈ x.1, A.data.getD p 0 = v
  pendB : ∀ x, Pend groups gs x → ∀ p ∈ x.1, B.data.getD p 0 = x.2
  zero : ∀ x ∈ groups, ¬ Pend groups gs x → ∀ p ∈ x.1, B.data.getD p 0 = 0

section ArrLemmas
variable {g : Seg} {v : Nat} {groups gs : List Grp} {t0 : Nat} {A B : Seg}

theorem Arr.pend_mem (h : Arr g v groups gs A B) {x : Grp} (hx : Pend groups gs x) : x ∈ groups :=
  hx.elim (h.sub x) (·.1)

theorem Arr.init (hG : GFacts g v groups t0) :
    Arr g v groups groups (g.setPixels (groups.flatMap (·.1)) v) g where
  sub := fun _ h => h
  frameA := rfl
  frameB := rfl
  lenA := Seg.setPixels_length ..
  lenB := rfl
  same := fun i => by
    rw [Seg.setPixels_getD]
    by_cases hc : i ∈ groups.flatMap (·.1) ∧ i < g.data.length
    · obtain ⟨x, hm, hi⟩ := mem_flatMap.mp hc.1
      exact Or.inr ⟨x, Or.inl hm, hi⟩
    · rw [if_neg hc]; exact Or.inl rfl
  pendA := fun x hp p hpm => by
    have hm : x ∈ groups := hp.elim id (·.1)
    rw [Seg.setPixels_getD, if_pos ⟨mem_flatMap.mpr ⟨x, hm, hpm⟩, (hG.inr x hm p hpm).1⟩]
  pendB := fun x hp p hpm => hG.prev x (hp.elim id (·.1)) p hpm
  zero := fun x hm hn => absurd (Or.inl hm) hn

theorem Arr.congr_pend {gs' : List Grp} (h : Arr g v groups gs A B) (hs : ∀ x ∈ gs', x ∈ groups)
    (hp : ∀ x, Pend groups gs x ↔ Pend groups gs' x) : Arr g v groups gs' A B where
  sub := hs
  frameA := h.frameA
  frameB := h.frameB
  lenA := h.lenA
  lenB := h.lenB
  same := fun i => (h.same i).imp id (fun ⟨x, hx, hi⟩ => ⟨x, (hp x).mp hx, hi⟩)
  pendA := fun x hx => h.pendA x ((hp x).mpr hx)
  pendB := fun x hx => h.pendB x ((hp x).mpr hx)
  zero := fun x hm hn => h.zero x hm (fun hc => hn ((hp x).mp hc))

/-- a group of background pixels is skipped by the loop -/
theorem Arr.skip {grp : Grp} (h : Arr g v groups (grp :: gs) A B) (h0 : grp.2 = 0) :
    Arr g v groups gs A B := by
  have hm : grp ∈ groups := h.sub grp mem_cons_self
  refine h.congr_pend (fun x hx => h.sub x (mem_cons_of_mem _ hx)) (fun x => ⟨?_, ?_⟩)
  · rintro (hx | hx)
    · rcases mem_cons.mp hx with rfl | hx
      · exact Or.inr ⟨hm, h0⟩
      · exact Or.inl hx
    · exact Or.inr hx
  · rintro (hx | hx)
    · exact Or.inl (mem_cons_of_mem _ hx)
    · exact Or.inr hx

/-- one processed group: its pixels are zeroed in both arrays -/
theorem Arr.step (hG : GFacts g v groups t0) {grp : Grp} (h : Arr g v groups (grp :: gs) A B)
    (hnin : grp ∉ gs) (hl0 : grp.2 ≠ 0) :
    Arr g v groups gs (A.setPixels grp.1 0) (B.setPixels grp.1 0) := by
  have hm : grp ∈ groups := h.sub grp mem_cons_self
  have hup : ∀ x, Pend groups gs x → Pend groups (grp :: gs) x := fun x hx =>
    hx.imp (mem_cons_of_mem _) id
  have hne : ∀ x, Pend groups gs x → x ≠ grp := by
    rintro x (hx | hx) e
    · exact hnin (e ▸ hx)
    · exact hl0 (e ▸ hx.2)
  have hdown : ∀ x, Pend groups (grp :: gs) x → x ≠ grp → Pend groups gs x := by
    rintro x (hx | hx) e
    · rcases mem_cons.mp hx with rfl | hx
      · exact absurd rfl e
      · exact Or.inl hx
    · exact Or.inr hx
  have hnot : ∀ x, Pend groups gs x → ∀ p ∈ x.1, ¬ (p ∈ grp.1 ∧ p < g.data.length) := by
    intro x hx p hp hc
    exact hne x hx (hG.pix_disj (h.pend_mem (hup x hx)) hm hp hc.1)
  refine ⟨fun x hx => h.sub x (mem_cons_of_mem _ hx), h.frameA, h.frameB,
    (Seg.setPixels_length ..).trans h.lenA, (Seg.setPixels_length ..).trans h.lenB, ?_, ?_, ?_, ?_⟩
  · intro i
    rw [Seg.setPixels_getD, Seg.setPixels_getD, h.lenA, h.lenB]
    by_cases hc : i ∈ grp.1 ∧ i < g.data.length
    · rw [if_pos hc, if_pos hc]; exact Or.inl rfl
    · rw [if_neg hc, if_neg hc]
      rcases h.same i with e | ⟨x, hx, hi⟩
      · exact Or.inl e
      · by_cases hxg : x = grp
        · exact absurd ⟨hxg ▸ hi, (hG.inr grp hm i (hxg ▸ hi)).1⟩ hc
        · exact Or.inr ⟨x, hdown x hx hxg, hi⟩
  · intro x hx p hp
    rw [Seg.setPixels_getD, h.lenA, if_neg (hnot x hx p hp)]
    exact h.pendA x (hup x hx) p hp
  · intro x hx p hp
    rw [Seg.setPixels_getD, h.lenB, if_neg (hnot x hx p hp)]
    exact h.pendB x (hup x hx) p hp
  · intro x hxm hn p hp
    rw [Seg.setPixels_getD, h.lenB]
    by_cases hxg : x = grp
    · rw [if_pos ⟨hxg ▸ hp, (hG.inr x hxm p hp).1⟩]
    · have : B.data.getD p 0 = 0 := h.zero x hxm (fun hc => hn (hdown x hc hxg)) p hp
      split
      · rfl
      · exact this

/-- outside the frame of the stroke the two arrays agree -/
theorem Arr.offFrame (hG : GFacts g v groups t0) (h : Arr g v groups gs A B) : OffFrame t0 A B := by
  refine ⟨h.frameA.trans h.frameB.symm, h.lenA.trans h.lenB.symm, fun t ht l => ?_⟩
  simp only [Seg.offsetsOf, h.frameA, h.frameB]
  apply filter_congr
  intro o ho
  have ho' : o < g.frame := mem_range.mp ho
  rcases h.same (t * g.frame + o) with e | ⟨x, hx, hi⟩
  · rw [e]
  · exfalso
    have := (hG.inr x (h.pend_mem hx) _ hi).2
    rw [Nat.mul_comm, Nat.mul_add_div hG.pos, Nat.div_eq_of_lt ho', Nat.add_zero] at this
    exact ht this

/-- a label that is neither the new value nor the label of a pending group has the same cells in
    both arrays -/
theorem Arr.offsets_eq (h : Arr g v groups gs A B) {m : Nat} (hv : m ≠ v)
    (hp : ∀ x, Pend groups gs x → x.2 ≠ m) (t : Nat) : A.offsetsOf t m = B.offsetsOf t m := by
  simp only [Seg.offsetsOf, h.frameA, h.frameB]
  apply filter_congr
  intro o _
  rcases h.same (t * g.frame + o) with e | ⟨x, hx, hi⟩
  · rw [e]
  · rw [h.pendA x hx _ hi, h.pendB x hx _ hi]
    have a : (v == m) = false := by simpa using (Ne.symm hv)
    have b : (x.2 == m) = false := by simpa using (hp x hx)
    rw [a, b]

theorem Arr.pixels_eq (h : Arr g v groups gs A B) {m : Nat} (hv : m ≠ v)
    (hp : ∀ x, Pend groups gs x → x.2 ≠ m) (t : Nat) : A.pixelsOf t m = B.pixelsOf t m := by
  simp only [Seg.pixelsOf, h.offsets_eq hv hp t, h.frameA, h.frameB]

/-- the node of the first pending group is deleted exactly when the group lists all its pixels -/
theorem Arr.pix_iff (hG : GFacts g v groups t0) {grp : Grp} (h : Arr g v groups (grp :: gs) A B)
    (hl0 : grp.2 ≠ 0) (hemp : A.offsetsOf t0 grp.2 = []) :
    ∀ p, p ∈ grp.1 ↔ p ∈ B.pixelsOf t0 grp.2 := by
  have hm : grp ∈ groups := h.sub grp mem_cons_self
  have hpd : Pend groups (grp :: gs) grp := Or.inl mem_cons_self
  intro p
  rw [Seg.mem_pixelsOf, h.frameB]
  constructor
  · intro hp
    exact ⟨hG.pos, (hG.inr grp hm p hp).2, h.pendB grp hpd p hp⟩
  · rintro ⟨hpos, hfr, hB⟩
    rcases h.same p with e | ⟨x, hx, hi⟩
    · exfalso
      have : p % g.frame ∈ A.offsetsOf t0 grp.2 := by
        rw [Seg.mem_offsetsOf, h.frameA]
        refine ⟨Nat.mod_lt _ hpos, ?_⟩
        rw [← hfr, Nat.mul_comm, Nat.div_add_mod, e, hB]
      rw [hemp] at this; cases this
    · have : x = grp := hG.label_inj (h.pend_mem hx) hm ((h.pendB x hx p hi).symm.trans hB)
      exact this ▸ hi

/-- after the loop: painting the whole stroke gives the same array from `A` and from `B` -/
theorem Arr.final_eq (hG : GFacts g v groups t0) (h : Arr g v groups [] A B) :
    A.setPixels (groups.flatMap (·.1)) v = B.setPixels (groups.flatMap (·.1)) v := by
  apply Seg.ext_getD
  · exact h.frameA.trans h.frameB.symm
  · simp [h.lenA, h.lenB]
  · intro i _
    rw [Seg.setPixels_getD, Seg.setPixels_getD, h.lenA, h.lenB]
    by_cases hc : i ∈ groups.flatMap (·.1) ∧ i < g.data.length
    · rw [if_pos hc, if_pos hc]
    · rw [if_neg hc, if_neg hc]
      rcases h.same i with e | ⟨x, hx, hi⟩
      · exact e
      · have hm := h.pend_mem hx
        exact absurd ⟨mem_flatMap.mpr ⟨x, hm, hi⟩, (hG.inr x hm i hi).1⟩ hc

/-- after the loop of an erase (or of an empty stroke) the two arrays coincide -/
theorem Arr.final_same (h : Arr g v groups [] A B) (hz : v = 0 ∨ groups = []) : A = B := by
  apply Seg.ext_getD
  · exact h.frameA.trans h.frameB.symm
  · exact h.lenA.trans h.lenB.symm
  · intro i _
    rcases h.same i with e | ⟨x, hx, hi⟩
    · exact e
    · rcases hx with hx | ⟨hm, h0⟩
      · cases hx
      · rcases hz with hz | hz
        · rw [h.pendA x (Or.inr ⟨hm, h0⟩) i hi, h.pendB x (Or.inr ⟨hm, h0⟩) i hi, hz, h0]
        · rw [hz] at hm; cases hm

/-- after the loop the whole stroke is background in the unpainted reading -/
theorem Arr.final_bg (hG : GFacts g v groups t0) (h : Arr g v groups [] A B) :
    ∀ p ∈ groups.flatMap (·.1), p < B.data.length ∧ B.data.getD p 0 = 0 ∧ p / B.frame = t0 := by
  intro p hp
  obtain ⟨x, hm, hi⟩ := mem_flatMap.mp hp
  refine ⟨h.lenB ▸ (hG.inr x hm p hi).1, ?_, h.frameB ▸ (hG.inr x hm p hi).2⟩
  by_cases hx : Pend groups [] x
  · rcases hx with hx | ⟨_, h0⟩
    · cases hx
    · rw [h.pendB x (Or.inr ⟨hm, h0⟩) p hi, h0]
  · exact h.zero x hm hx p hi

end ArrLemmas

/-! ## §6 the loop -/

theorem timeOf_of_mem {s : St} (hn : s.ids.Nodup) {r : NodeRec} (hr : r ∈ s.nodes) :
    s.timeOf r.id = some r.time := by
  have := (R2A2.mem_nodes_iff hn r).1 hr
  unfold timeOf; rw [this]; rfl

theorem iouOf_swap_of {st : St} {A' B' : Seg} {e : Edge}
    (h1 : ∀ t, st.timeOf e.1 = some t → A'.offsetsOf t e.1 = B'.offsetsOf t e.1)
    (h2 : ∀ t, st.timeOf e.2 = some t → A'.offsetsOf t e.2 = B'.offsetsOf t e.2) :
    (st.withSeg A').iouOf e = (st.withSeg B').iouOf e := by
  unfold St.iouOf
  simp only [withSeg_seg, withSeg_timeOf]
  cases h1' : st.timeOf e.1 with
  | none => rfl
  | some t1 =>
    cases h2' : st.timeOf e.2 with
    | none => rfl
    | some t2 => simp only [h1 t1 h1', h2 t2 h2']

theorem mem_incident_iff {s : St} {n : Node} {e : Edge} (h : e ∈ s.incident n) :
    e ∈ s.edgeList ∧ (e.1 = n ∨ e.2 = n) := by
  simp only [incident, mem_append, mem_map, mem_filter] at h
  rcases h with ⟨r, ⟨hr, hc⟩, rfl⟩ | ⟨r, ⟨hr, hc⟩, rfl⟩
  · exact ⟨mem_map_of_mem hr, Or.inr (by simpa using hc)⟩
  · exact ⟨mem_map_of_mem hr, Or.inl (by simpa using hc)⟩

theorem skel_uDeleteNode {s : St} {B : Seg} {n : Node} {px : List Pix} {recs : List PrimRec}
    (hB : s.seg = some B) (hok : (s.uDeleteNode n (some px)).2 = .ok recs) :
    ∀ p ∈ (s.uDeleteNode n (some px)).1.skel, p ∈ s.skel := by
  obtain ⟨st, r, hfs, hd⟩ := uDeleteNode_ok_sg hok
  obtain ⟨_, e2⟩ := pDelNode_seg_skel hd (hfs.seg.trans hB)
  intro p hp
  rw [e2, hfs.skel] at hp
  exact (mem_filter.mp hp).1

/-- the loop invariant: if the real run `acc` is accepted so far, its records form a lawful chain
    from the unpainted start state `s` to a shadow state `sh` that satisfies the bundle invariant;
    the real state is `sh` with the running array `A`; `Arr` relates `A` to the shadow array `B` -/
def LOk (s : St) (g : Seg) (v : Nat) (groups gs : List Grp) (acc : UOut) : Prop :=
  ∀ recs, acc.2 = .ok recs → ∃ sh A B, Chain E s recs sh ∧ Inv sh ∧ sh.seg = some B ∧
    acc.1 = sh.withSeg A ∧ Arr g v groups gs A B ∧ ∀ p ∈ sh.skel, p ∈ s.skel

/-- the node of a pending non-background group exists in the shadow state, in the frame of the
    stroke -/
theorem node_of_pending {g : Seg} {v : Nat} {groups gs : List Grp} {t0 : Nat} {A B : Seg} {sh : St}
    (hG : GFacts g v groups t0) {grp : Grp} (harr : Arr g v groups (grp :: gs) A B)
    (hI : Inv sh) (hB : sh.seg = some B) (hl0 : grp.2 ≠ 0) : sh.timeOf grp.2 = some t0 := by
  have hm : grp ∈ groups := harr.sub grp mem_cons_self
  obtain ⟨p0, hp0⟩ := exists_mem_of_ne_nil _ (hG.nonempty grp hm)
  have hp0B : B.data.getD p0 0 = grp.2 := harr.pendB grp (Or.inl mem_cons_self) p0 hp0
  obtain ⟨hlt, hfr⟩ := hG.inr grp hm p0 hp0
  obtain ⟨r, hr, hrid, hrt⟩ := (hI.segOK B hB).2 p0 (harr.lenB ▸ hlt) (by rw [hp0B]; exact hl0)
  have := timeOf_of_mem hI.valid.forest.nodup_nodes hr
  rw [hrid, hp0B, ← hrt, harr.frameB, hfr] at this
  exact this

theorem skel_ne0 {sh : St} (hI : Inv sh) {B : Seg} (hB : sh.seg = some B) : ∀ p ∈ sh.skel, p.1 ≠ 0 := by
  intro p hp e
  apply hI.node.ne0 B hB
  rw [ids_eq_skel_sg]
  exact mem_map.mpr ⟨p, hp, e⟩

/-- one round of the group loop -/
theorem lok_step {s : St} {g : Seg} {v : Nat} {groups gs : List Grp} {t0 : Nat} {grp : Grp} {acc : UOut}
    (hG : GFacts g v groups t0) (h : LOk s g v groups (grp :: gs) acc) (hnin : grp ∉ gs) :
    LOk s g v groups gs (segGrpStep acc grp) := by
  intro recs hrecs
  generalize hout : segGrpStep acc grp = out at hrecs ⊢
  unfold segGrpStep at hout
  split at hout
  · subst hout; rename_i e he; rw [he] at hrecs; cases hrecs
  · rename_i r0' hacc
    split at hout
    · rename_i hz
      subst hout
      obtain ⟨sh, A, B, hc, hI, hB, hA, harr, hsk⟩ := h recs hrecs
      exact ⟨sh, A, B, hc, hI, hB, hA, harr.skip (by simpa using hz), hsk⟩
    · rename_i hz
      have hl0 : grp.2 ≠ 0 := by simpa using hz
      obtain ⟨sh, A, B, hc0, hI, hB, hA, harr, hsk⟩ := h r0' hacc
      have hm : grp ∈ groups := harr.sub grp mem_cons_self
      have hpd : Pend groups (grp :: gs) grp := Or.inl mem_cons_self
      have hsegA : acc.1.seg = some A := by rw [hA]; rfl
      have ht : sh.timeOf grp.2 = some t0 := node_of_pending hG harr hI hB hl0
      have harr' := harr.step hG hnin hl0
      split at hout
      · rename_i g' p0 hg' hp0
        rw [hsegA] at hg'; cases hg'
        have hp0m : p0 ∈ grp.1 := mem_of_mem_head? hp0
        have ht0 : p0 / A.frame = t0 := by rw [harr.frameA]; exact (hG.inr grp hm p0 hp0m).2
        simp only [ht0] at hout
        split at hout
        · -- the label disappeared from the frame: the node is deleted
          rename_i hemp
          have hemp' : A.offsetsOf t0 grp.2 = [] := by simpa using hemp
          subst hout
          obtain ⟨r0, r1, h0, h1, h2, h3⟩ := thenUser_ok hrecs
          rw [hacc] at h0; cases h0
          rw [hA] at h1 h2
          obtain ⟨hs1, hs2⟩ := uDeleteNode_swap hB ht (harr.offFrame hG) h1
          obtain ⟨c1, c2, c3⟩ := delNode_shadow hI hB ht (harr.pix_iff hG hl0 hemp') hs1
          refine ⟨_, _, _, ?_, c2, c3, by rw [h2, hs2], harr', ?_⟩
          · rw [h3]; exact chain_append hc0 c1
          · intro p hp; exact hsk p (skel_uDeleteNode hB hs1 p hp)
        · -- part of the node remains: it shrinks
          rename_i hemp
          have hne : A.offsetsOf t0 grp.2 ≠ [] := by simpa using hemp
          subst hout
          obtain ⟨r0, st', r, h0, h1, h2, h3⟩ := thenPrim_ok hrecs
          rw [hacc] at h0; cases h0
          rw [hA] at h1
          obtain ⟨g2, hg2, hhas, hr, hst⟩ := pUpdSeg_ok_sg h1
          cases hg2
          have hn : grp.2 ∈ sh.ids := (PC.hasNode_iff sh _).mp hhas
          have hv : grp.2 ≠ v := hG.ne_new grp hm
          -- a remaining pixel of the node
          obtain ⟨o, ho⟩ := exists_mem_of_ne_nil _ hne
          rw [Seg.mem_offsetsOf, harr.frameA] at ho
          have hqA : A.data.getD (t0 * g.frame + o) 0 = grp.2 := ho.2
          have hqB : B.data.getD (t0 * g.frame + o) 0 = grp.2 := by
            rcases harr.same (t0 * g.frame + o) with e | ⟨x, hx, hi⟩
            · rw [← e]; exact hqA
            · exact absurd ((harr.pendA x hx _ hi).symm.trans hqA) (Ne.symm hv)
          have hqn : t0 * g.frame + o ∉ grp.1 := fun hc =>
            hv ((hqA.symm.trans (harr.pendA grp hpd _ hc)))
          have hk : SegOKk (B.setPixels grp.1 (lab false grp.2)) sh.skel := by
            refine R2G.segOKk_shrink ((segOK_iff_skel sh).mp hI.segOK B hB)
              (R2G.skel_nodup_of_ids hI.valid.forest.nodup_nodes) (skel_ne0 hI hB)
              (R2G.mem_skel_of_timeOf ht) (fun p hp _ => Or.inl (harr.pendB grp hpd p hp))
              ⟨t0 * g.frame + o, hqn, ?_, harr.frameB ▸ hG.pos, hqB⟩
            rw [harr.frameB, Nat.mul_comm, Nat.mul_add_div hG.pos, Nat.div_eq_of_lt ho.1, Nat.add_zero]
          obtain ⟨u1, u2, u3⟩ := updSeg_inv (b := false) hI hB hn
            (fun p hp => ⟨harr.lenB ▸ (hG.inr grp hm p hp).1, harr.pendB grp hpd p hp⟩) hk
          have hpendl : ∀ x, Pend groups gs x → x.2 ≠ grp.2 := by
            rintro x hx e
            have hxg : x = grp := hG.label_inj (harr'.pend_mem hx) hm e
            rcases hx with hx | hx
            · exact hnin (hxg ▸ hx)
            · exact hl0 (hxg ▸ hx.2)
          have hsw : st' = (updRes sh (B.setPixels grp.1 0) grp.2).withSeg (A.setPixels grp.1 0) := by
            rw [hst]
            show updRes sh (A.setPixels grp.1 0) grp.2 = _
            refine updRes_swap (fun t _ => harr'.pixels_eq hv hpendl t) (fun e he => ?_)
            obtain ⟨hel, hinc⟩ := mem_incident_iff he
            have hO := harr'.offFrame hG
            have hfw := hI.valid.forest.forward e hel
            rcases hinc with hinc | hinc
            · refine iouOf_swap_of (fun t _ => by rw [hinc]; exact harr'.offsets_eq hv hpendl t)
                (fun t2 h2 => hO.off t2 (fun hc => ?_) _)
              have := hfw t0 t2 (hinc ▸ ht) h2
              omega
            · refine iouOf_swap_of (fun t1 h1 => hO.off t1 (fun hc => ?_) _)
                (fun t _ => by rw [hinc]; exact harr'.offsets_eq hv hpendl t)
              have := hfw t1 t0 h1 (hinc ▸ ht)
              omega
          refine ⟨updRes sh (B.setPixels grp.1 0) grp.2, _, _, ?_, u3, (upd_desc _ _ _).seg,
            by rw [h2, hsw], harr', ?_⟩
          · rw [h3, hr]; exact chain_snoc hc0 u2
          · intro p hp
            have : (updRes sh (B.setPixels grp.1 0) grp.2).skel = sh.skel :=
              (iouUpdateNode_skel _ _).trans (rpUpdate_skel _ _)
            rw [this] at hp; exact hsk p hp
      · subst hout; cases hrecs

/-- the whole loop -/
theorem lok_fold {s : St} {g : Seg} {v : Nat} {groups : List Grp} {t0 : Nat} (hG : GFacts g v groups t0) :
    ∀ (gs : List Grp) (acc : UOut), (gs.map (·.2)).Nodup → LOk s g v groups gs acc →
      LOk s g v groups [] (gs.foldl segGrpStep acc)
  | [], _, _, h => h
  | grp :: gs, acc, hnd, h => by
    rw [map_cons, nodup_cons] at hnd
    rw [foldl_cons]
    exact lok_fold hG gs _ hnd.2 (lok_step hG h (fun hc => hnd.1 (mem_map_of_mem hc)))

/-! ## §7 the final step; the user-level theorem -/

theorem GFacts.of_pre {s : St} {g : Seg} {v : Nat} {groups : List Grp} (hI : Inv s) (hg : s.seg = some g)
    (hP : PaintArgs s g v groups) :
    ∃ t0, GFacts g v groups t0 ∧ (groups ≠ [] → ∀ p ∈ s.skel, p.1 = v → p.2 = t0) := by
  obtain ⟨t0, hp, hnd⟩ := hP
  exact ⟨t0, ⟨hp.inframe, hp.prev, hp.ne_new, hp.nonempty, hnd, hI.frame g hg⟩, hp.own⟩

theorem lok_init {s : St} {g : Seg} {v : Nat} {groups : List Grp} {t0 : Nat} (hI : Inv s)
    (hg : s.seg = some g) (hG : GFacts g v groups t0) :
    LOk s g v groups groups (s.withSeg (g.setPixels (groups.flatMap (·.1)) v), .ok []) := by
  intro recs hr
  cases hr
  exact ⟨s, _, g, chain_nil s, hI, hg, rfl, Arr.init hG, fun _ h => h⟩

/-- the add-node branch of the final step -/
theorem final_add {s sh : St} {g : Seg} {v : Nat} {groups : List Grp} {t0 tid : Nat} {force : Bool}
    {A B : Seg} {recs0 recs' : List PrimRec} (hG : GFacts g v groups t0) (hc0 : Chain E s recs0 sh)
    (hI : Inv sh) (hB : sh.seg = some B) (harr : Arr g v groups [] A B) (hv : v ≠ 0)
    (hne : groups.flatMap (·.1) ≠ []) (hnew : sh.hasNode v = false)
    (hr' : ((sh.withSeg A).uAddNode (⟨v, some t0, some tid, none, [],
      some (groups.flatMap (·.1)), force⟩ : AddNodeArgs)).2 = .ok recs') :
    Chain E s (recs0 ++ recs') ((sh.withSeg A).uAddNode (⟨v, some t0, some tid, none, [],
      some (groups.flatMap (·.1)), force⟩ : AddNodeArgs)).1 ∧
    Inv ((sh.withSeg A).uAddNode (⟨v, some t0, some tid, none, [],
      some (groups.flatMap (·.1)), force⟩ : AddNodeArgs)).1 := by
  obtain ⟨a, ha⟩ : ∃ a : AddNodeArgs, a = ⟨v, some t0, some tid, none, [],
      some (groups.flatMap (·.1)), force⟩ := ⟨_, rfl⟩
  rw [← ha] at hr' ⊢
  have hpx : a.pixels = some (groups.flatMap (·.1)) := by rw [ha]
  have hnode : a.node = v := by rw [ha]
  have hAB : A.setPixels (groups.flatMap (·.1)) a.node = B.setPixels (groups.flatMap (·.1)) a.node := by
    rw [hnode]; exact harr.final_eq hG
  have hsw := uAddNode_swap hB hpx hAB hr'
  rw [← hsw] at hr' ⊢
  subst ha
  obtain ⟨c1, c2⟩ := addNode_shadow hI hB hv hnew (harr.final_bg hG) hne hr'
  exact ⟨chain_append hc0 c1, c2⟩

/-- the final step of an accepted `uUpdateSeg`: grow the existing node `v`, or add the node `v` -/
theorem final_ok {s : St} {g : Seg} {v : Nat} {groups : List Grp} {t0 tid : Nat} {force : Bool}
    {a0 : UOut} {recs0 recs : List PrimRec} (hG : GFacts g v groups t0)
    (hown : groups ≠ [] → ∀ p ∈ s.skel, p.1 = v → p.2 = t0)
    (h : LOk s g v groups [] a0) (h0 : a0.2 = .ok recs0)
    (hok : (uusGrow a0 recs0 v groups tid force).1.2 = .ok recs) :
    Chain E s recs (uusGrow a0 recs0 v groups tid force).1.1 ∧
    Inv (uusGrow a0 recs0 v groups tid force).1.1 := by
  obtain ⟨sh, A, B, hc0, hI, hB, hA, harr, hsk⟩ := h recs0 h0
  have hsegA : a0.1.seg = some A := by rw [hA]; rfl
  generalize hout : uusGrow a0 recs0 v groups tid force = out at hok ⊢
  unfold uusGrow at hout
  split at hout
  · rename_i hc
    have hc' : v ≠ 0 ∧ groups ≠ [] := by
      simp only [Bool.and_eq_true, bne_iff_ne, Bool.not_eq_true', List.isEmpty_eq_false_iff] at hc
      exact hc
    simp only at hout
    split at hout
    · rename_i g' p0 hg' hp0
      rw [hsegA] at hg'; cases hg'
      have hp0m : p0 ∈ groups.flatMap (·.1) := mem_of_mem_head? hp0
      have hbg := harr.final_bg hG
      have ht0 : p0 / A.frame = t0 := by
        rw [harr.frameA, ← harr.frameB]; exact (hbg p0 hp0m).2.2
      have hfe := harr.final_eq hG
      simp only [ht0] at hout
      split at hout
      · -- the label exists: grow it
        rename_i hn
        subst hout
        simp only at hok ⊢
        obtain ⟨r0, st', r, h0', h1, h2, h3⟩ := thenPrim_ok hok
        rw [h0] at h0'; cases h0'
        rw [hA] at h1 hn
        obtain ⟨g2, hg2, hhas, hr, hst⟩ := pUpdSeg_ok_sg h1
        cases hg2
        have hnid : v ∈ sh.ids := (PC.hasNode_iff sh _).mp hhas
        obtain ⟨rv, hrv, hrid⟩ := mem_map.mp hnid
        have htv : sh.timeOf v = some t0 := by
          have := timeOf_of_mem hI.valid.forest.nodup_nodes hrv
          rw [hrid] at this
          have e : rv.time = t0 := hown hc'.2 (rv.id, rv.time) (hsk _ (mem_skel_of_mem hrv)) hrid
          rw [this, e]
        have hk : SegOKk (B.setPixels (groups.flatMap (·.1)) (lab true v)) sh.skel :=
          R2G.segOKk_grow ((segOK_iff_skel sh).mp hI.segOK B hB) (skel_ne0 hI hB)
            (R2G.mem_skel_of_timeOf htv) (fun p hp _ => Or.inl (hbg p hp).2.1)
            (fun p hp _ => (hbg p hp).2.2)
        obtain ⟨u1, u2, u3⟩ := updSeg_inv (b := true) hI hB hnid
          (fun p hp => ⟨(hbg p hp).1, (hbg p hp).2.1⟩) hk
        have hsw : st' = updRes sh (B.setPixels (groups.flatMap (·.1)) v) v := by
          rw [hst]
          show updRes sh (A.setPixels (groups.flatMap (·.1)) v) v = _
          rw [hfe]
        rw [h2, hsw, h3, hr]
        exact ⟨chain_snoc hc0 u2, u3⟩
      · -- a new node is created
        rename_i hn
        split at hout
        · rename_i recs' hr'
          subst hout
          simp only at hok ⊢
          cases hok
          have hnew : sh.hasNode v = false := by
            cases hh : sh.hasNode v with
            | false => rfl
            | true => rw [hA] at hn; exact absurd hh hn
          have hne : groups.flatMap (·.1) ≠ [] := fun hc => by rw [hc] at hp0m; cases hp0m
          rw [hA] at hr' ⊢
          exact final_add hG hc0 hI hB harr hc'.1 hne hnew hr'
        · subst hout; cases hok
    · subst hout; cases hok
  · -- nothing to grow
    rename_i hc
    subst hout
    have hz : v = 0 ∨ groups = [] := by
      by_cases hv : v = 0
      · exact Or.inl hv
      · right
        apply Classical.byContradiction
        intro hgr
        apply hc
        simp only [Bool.and_eq_true, bne_iff_ne, Bool.not_eq_true', List.isEmpty_eq_false_iff]
        exact ⟨hv, hgr⟩
    have hAB := harr.final_same hz
    simp only at hok ⊢
    rw [h0] at hok; cases hok
    rw [hA, hAB, withSeg_self hB]
    exact ⟨hc0, hI⟩

/-- **user-level C01 of a paint**, read against the unpainted start state `s`: the caller has
    written the stroke into the array (`s.withSeg P`), `uUpdateSeg` ran and was accepted; its records
    are a lawful chain from `s` to the result, which satisfies the bundle invariant again -/
theorem paint_user {s : St} {g : Seg} {v : Nat} {groups : List Grp} {tid : Nat} {force : Bool}
    {recs : List PrimRec} (hI : Inv s) (hg : s.seg = some g) (hP : PaintArgs s g v groups)
    (hok : ((s.withSeg (g.setPixels (groups.flatMap (·.1)) v)).uUpdateSeg v groups tid force).1.2 = .ok recs) :
    Chain E s recs ((s.withSeg (g.setPixels (groups.flatMap (·.1)) v)).uUpdateSeg v groups tid force).1.1 ∧
    Inv ((s.withSeg (g.setPixels (groups.flatMap (·.1)) v)).uUpdateSeg v groups tid force).1.1 := by
  obtain ⟨t0, hG, hown⟩ := GFacts.of_pre hI hg hP
  rw [uUpdateSeg_eq_sg] at hok ⊢
  simp only [withSeg_seg] at hok ⊢
  have hloop := lok_fold hG groups _ hG.nd (lok_init hI hg hG)
  cases hf : (groups.foldl segGrpStep (s.withSeg (g.setPixels (groups.flatMap (·.1)) v), .ok [])).2 with
  | error e => simp only [hf] at hok; cases hok
  | ok recs0 =>
    simp only [hf] at hok ⊢
    exact final_ok hG hown hloop hf hok

/-! ## §8 session level -/

theorem pu_E_committed (u : St) (recs : ActRec) (p : Option Node) : E (committed u recs p) u :=
  ⟨⟨fun _ => Iff.rfl, fun _ => Iff.rfl, rfl, fun _ _ => Iff.rfl, fun _ _ => Iff.rfl, rfl⟩,
    ⟨fun ⟨a, b, c, d, e, f⟩ => ⟨a, b, c, d, e, f⟩, fun ⟨a, b, c, d, e, f⟩ => ⟨a, b, c, d, e, f⟩⟩, Iff.rfl⟩

/-- the bundle invariant does not read the history / refresh log -/
theorem pu_inv_committed {u : St} (h : Inv u) (recs : ActRec) (p : Option Node) : Inv (committed u recs p) :=
  ⟨R2D.valid_commit_fields h.valid _ _ _, Good.of_E (pu_E_committed u recs p) h.good,
    edgeInv_congrE (pu_E_committed u recs p) h.good.wf h.edge,
    ⟨h.node.registered, h.node.rpreg, h.node.pos, h.node.cur, h.node.ne0⟩,
    fun g hg => h.segOK g hg, h.avail, h.frame⟩

/-- **C01 of a paint at session level** (the `ok` half of `PaintLaw`) -/
theorem paint_step_ok {s : St} {v : Nat} {groups : List (List Pix × Nat)} {tid : Nat} {f : Bool}
    (hI : Inv s) (hpre : OpPre s (.paint v groups tid f))
    (hok : (s.step (.paint v groups tid f)).2 = .ok) :
    ∃ recs, (s.step (.paint v groups tid f)).1.hist = s.hist.add recs ∧
      Chain E s recs (s.step (.paint v groups tid f)).1 ∧ Inv (s.step (.paint v groups tid f)).1 := by
  obtain ⟨r, recs, hu, hr, hst⟩ := step_edit_group s (.paint v groups tid f) rfl hok
  cases hg : s.seg with
  | none => simp only [userPart, hg] at hu; cases hu
  | some g =>
    simp only [userPart, hg, Option.some.injEq] at hu
    have hP : PaintArgs s g v groups := hpre g hg
    have hpu := @paint_user s g v groups tid f recs hI hg hP
    have hctl := ctl_uUpdateSeg (painted s g v groups) v groups tid f
    have e0 : painted s g v groups = s.withSeg (g.setPixels (groups.flatMap (·.1)) v) := rfl
    rw [e0] at hu hctl
    rw [hu] at hpu hctl
    obtain ⟨c1, c2⟩ := hpu hr
    have hh : r.1.hist = s.hist := congrArg (·.1) hctl
    refine ⟨recs, by rw [hst]; show r.1.hist.add recs = _; rw [hh], ?_, by rw [hst]; exact pu_inv_committed c2 _ _⟩
    rw [hst]
    exact chain_congr c1 (E_isEquiv.refl s) (E_isEquiv.symm (pu_E_committed _ _ _))

end Ft.R3D
