/-
  FtProofs.R3DAccDelLemmas — package R3D: `UserDeleteNode` of an existing node of a valid solution
  is never refused (`uDeleteNode_accepts`).

  Method: a "progress" combinator `AccQ Q a` ("accepted so far, and `Q` holds of the current state"),
  dual to the conditional `RunQ` of R3C, threaded through the `rfl` stage decomposition
  `uDeleteNode_eq` (`delNodeLoop1`, `delNodeLoop2`, `delNodeTail`). Stage invariant of the two
  edge-deleting loops: `PC.Inv` (forest, consistent lookups, lineage along edges — preserved by
  `pDelEdge` and by `pUpdTid _ _ none`) and "the node ids are those of `s`"; in the tail only the
  node ids matter.
-/
import FtProofs.R3DBase

namespace Ft.R3D
open Ft Ft.St List

/-- progress: everything so far was accepted, and `Q` holds of the current state -/
def AccQ (Q : St → Prop) (a : UOut) : Prop := ∃ recs, a.2 = .ok recs ∧ Q a.1

theorem AccQ.pure {Q : St → Prop} {s : St} (h : Q s) : AccQ Q (s, .ok []) := ⟨[], rfl, h⟩

theorem AccQ.mono {Q Q' : St → Prop} {a : UOut} (ha : AccQ Q a) (h : ∀ st, Q st → Q' st) : AccQ Q' a := by
  obtain ⟨recs, h1, h2⟩ := ha
  exact ⟨recs, h1, h _ h2⟩

theorem AccQ.thenPrim {Q Q' : St → Prop} {a : UOut} {f : St → Except Err (St × PrimRec)}
    (ha : AccQ Q a) (hf : ∀ st, Q st → ∃ st' r, f st = .ok (st', r) ∧ Q' st') :
    AccQ Q' (St.thenPrim a f) := by
  obtain ⟨recs, h1, h2⟩ := ha
  obtain ⟨st', r, h3, h4⟩ := hf _ h2
  refine ⟨recs ++ [r], ?_, ?_⟩
  · unfold St.thenPrim; simp only [h1, h3]
  · unfold St.thenPrim; simp only [h1, h3]; exact h4

/-! ### the stage invariant of the edge-deleting loops -/

/-- `PC.Inv` and the node ids of `s` -/
def SI (s st : St) : Prop := PC.Inv st ∧ st.ids = s.ids

theorem SI_of_valid {s : St} (hV : s.Valid) : SI s s :=
  ⟨⟨hV.forest, ((PC.bookOK_iff s).1 hV.book).1, ((PC.bookOK_iff s).1 hV.book).2, hV.lin.along⟩, rfl⟩

/-- deleting an existing edge: accepted, invariant kept, the edge list is filtered -/
theorem SI_pDelEdge {s st : St} {e : Edge} (hI : SI s st) (he : e ∈ st.edgeList) :
    ∃ st' r, st.pDelEdge e = .ok (st', r) ∧ SI s st' ∧
      st'.edgeList = st.edgeList.filter (· != e) := by
  obtain ⟨st', r, h⟩ := pDelEdge_isOk he
  have hG := (pDelEdge_G h).2
  refine ⟨st', r, h, ⟨PC.pDelEdge_inv hI.1 h, ?_⟩, G_es' hG⟩
  rw [ids_eq_nt, G_nt' hG, ← ids_eq_nt]; exact hI.2

/-- relabelling the sibling with the id of the parent (lineage untouched): accepted, invariant kept,
    same edges -/
theorem SI_updTid_none {s st : St} {p sib : Node} (hI : SI s st) (hp : p ∈ st.ids)
    (hs : sib ∈ st.ids) :
    ∃ st' r, (match st.tidOf p with
        | some t => st.pUpdTid sib t none
        | none => .error .key) = .ok (st', r) ∧ SI s st' ∧ st'.edgeList = st.edgeList := by
  obtain ⟨t, ht⟩ := R3B.tidOf_some_of_mem hp
  obtain ⟨st', r, h, hids⟩ := R3B.pUpdTid_ok_of_mem hs t none
  refine ⟨st', r, by rw [ht]; exact h, ⟨PC.pUpdTid_none_inv hI.1 h, by rw [hids]; exact hI.2⟩, ?_⟩
  exact G_es (pUpdTid_G h)

/-! ### loop 1: the (at most one) incoming edge -/

/-- one round of the predecessor loop -/
def l1step (n : Node) (acc : UOut) (p : Node) : UOut :=
  match acc.2 with
  | .error _ => acc
  | .ok _ =>
    let sibs := acc.1.succs p
    let acc1 := if sibs.length == 2 then
        match (sibs.erase n).head? with
        | some sib => St.thenPrim acc (fun st => match st.tidOf p with
            | some t => st.pUpdTid sib t none
            | none => .error .key)
        | none => acc
      else acc
    St.thenPrim acc1 (fun st => st.pDelEdge (p, n))

theorem delNodeLoop1_eq (s : St) (n : Node) :
    delNodeLoop1 s n = (s.preds n).foldl (l1step n) (s, .ok []) := rfl

theorem l1step_acc {s : St} {n p : Node} {acc : UOut}
    (ha : AccQ (fun st => SI s st ∧ (p, n) ∈ st.edgeList) acc) :
    AccQ (SI s) (l1step n acc p) := by
  obtain ⟨recs, h1, hI, he⟩ := ha
  have ha : AccQ (fun st => SI s st ∧ (p, n) ∈ st.edgeList) acc := ⟨recs, h1, hI, he⟩
  unfold l1step
  rw [h1]
  simp only []
  have fin : ∀ acc1 : UOut, AccQ (fun st => SI s st ∧ (p, n) ∈ st.edgeList) acc1 →
      AccQ (SI s) (St.thenPrim acc1 (fun st => st.pDelEdge (p, n))) := by
    intro acc1 h
    apply h.thenPrim
    rintro st ⟨hI', he'⟩
    obtain ⟨st', r, hk, hI'', _⟩ := SI_pDelEdge hI' he'
    exact ⟨st', r, hk, hI''⟩
  apply fin
  split
  · split
    · rename_i sib hsib
      apply ha.thenPrim
      rintro st ⟨hI', he'⟩
      have hpm : p ∈ st.ids := hI'.1.forest.src_mem _ he'
      -- the sibling is a child of `p` in the state in which the round started; ids are constant
      have hsm : sib ∈ st.ids := by
        have h1 : sib ∈ (acc.1.succs p).erase n := List.mem_of_head? hsib
        have h2 : (p, sib) ∈ acc.1.edgeList := tk_mem_succs.1 (List.mem_of_mem_erase h1)
        have h3 := hI.1.forest.dst_mem _ h2
        rw [hI'.2, ← hI.2]; exact h3
      obtain ⟨st', r, hk, hI'', hes⟩ := SI_updTid_none (p := p) hI' hpm hsm
      exact ⟨st', r, hk, hI'', by rw [hes]; exact he'⟩
    · exact ha
  · exact ha

theorem loop1_acc {s : St} (hV : s.Valid) (n : Node) : AccQ (SI s) (delNodeLoop1 s n) := by
  rw [delNodeLoop1_eq]
  have hle := hV.forest.indeg_le n
  unfold St.indeg at hle
  match hp : s.preds n, hle with
  | [], _ => exact AccQ.pure (SI_of_valid hV)
  | [p], _ =>
    show AccQ (SI s) (l1step n (s, .ok []) p)
    apply l1step_acc
    refine AccQ.pure ⟨SI_of_valid hV, tk_mem_preds.1 ?_⟩
    rw [hp]; exact List.mem_cons_self

/-! ### loop 2: the outgoing edges -/

theorem loop2_acc {s : St} {n : Node} : ∀ (l : List Node) (a : UOut), l.Nodup →
    AccQ (fun st => SI s st ∧ ∀ c ∈ l, (n, c) ∈ st.edgeList) a →
    AccQ (SI s) (l.foldl (fun acc c => St.thenPrim acc (fun st => st.pDelEdge (n, c))) a)
  | [], a, _, ha => ha.mono (fun _ h => h.1)
  | c :: l, a, hnd, ha => by
    rw [List.foldl_cons]
    rw [List.nodup_cons] at hnd
    apply loop2_acc l _ hnd.2
    apply ha.thenPrim
    rintro st ⟨hI, hall⟩
    obtain ⟨st', r, hk, hI', hes⟩ := SI_pDelEdge hI (hall c List.mem_cons_self)
    refine ⟨st', r, hk, hI', ?_⟩
    intro c' hc'
    rw [hes, List.mem_filter]
    refine ⟨hall c' (List.mem_cons_of_mem _ hc'), ?_⟩
    have : c' ≠ c := fun h => hnd.1 (h ▸ hc')
    simp [this]

theorem mid_acc {s : St} (hV : s.Valid) (n : Node) :
    AccQ (SI s) (delNodeLoop2 (delNodeLoop1 s n) n) := by
  obtain ⟨recs, e1, hI⟩ := loop1_acc hV n
  unfold delNodeLoop2
  apply loop2_acc _ _ (PC.nodup_succs hI.1.forest.nodup_edges n)
  exact ⟨recs, e1, hI, fun c hc => tk_mem_succs.1 hc⟩

/-! ### the tail: bridge edge, relabelling of the orphans, removal of the node -/

/-- "the node ids are those of `s`" — all the tail needs -/
def IdS (s st : St) : Prop := st.ids = s.ids

theorem pDelNode_isOk {st : St} {n : Node} (hn : n ∈ st.ids) (px : Option (List Pix)) :
    ∃ st' r, st.pDelNode n px = .ok (st', r) := by
  obtain ⟨rec, hr⟩ := tk_mem_ids_iff.1 hn
  rw [pDelNode_eq, hr]
  exact ⟨_, _, rfl⟩

theorem IdS_updTid {s st : St} {c : Node} (hI : IdS s st) (hc : c ∈ s.ids) :
    ∃ st' r, (match st.tidOf c with
        | some t => st.pUpdTid c t (some st.nextLin)
        | none => .error .key) = .ok (st', r) ∧ IdS s st' := by
  have hc' : c ∈ st.ids := by rw [hI]; exact hc
  obtain ⟨t, ht⟩ := R3B.tidOf_some_of_mem hc'
  obtain ⟨st', r, h, hids⟩ := R3B.pUpdTid_ok_of_mem hc' t (some st.nextLin)
  exact ⟨st', r, by rw [ht]; exact h, by unfold IdS; rw [hids]; exact hI⟩

theorem loop3_acc {s : St} (hasPred : Bool) : ∀ (l : List (Nat × Node)) (a : UOut),
    (∀ io ∈ l, io.2 ∈ s.ids) → AccQ (IdS s) a →
    AccQ (IdS s) (l.foldl (fun acc io =>
          if hasPred || io.1 > 0 then
            St.thenPrim acc (fun st => match st.tidOf io.2 with
              | some t => st.pUpdTid io.2 t (some st.nextLin)
              | none => .error .key)
          else acc) a)
  | [], a, _, ha => ha
  | io :: l, a, hl, ha => by
    rw [List.foldl_cons]
    apply loop3_acc hasPred l _ (fun x hx => hl x (List.mem_cons_of_mem _ hx))
    split
    · apply ha.thenPrim
      intro st hI
      exact IdS_updTid hI (hl io List.mem_cons_self)
    · exact ha

theorem tail_acc {s : St} {a1 : UOut} {orphans0 : List Node} (hasPred : Bool) {n : Node}
    (px : Option (List Pix)) (tid time : Nat) (hn : n ∈ s.ids)
    (h1 : AccQ (SI s) a1) (ho : ∀ c ∈ orphans0, c ∈ s.ids) :
    AccQ (fun _ => True) (delNodeTail a1 orphans0 hasPred n px tid time) := by
  obtain ⟨recs, e1, hI⟩ := h1
  unfold delNodeTail
  simp only []
  obtain ⟨sp1, -, sp3, -⟩ := PC.trackNeighbors_spec a1.1 hI.1.tok tid time
  generalize hr : a1.1.trackNeighbors tid time = r at sp1 sp3 ⊢
  have hGr : G r.1 = G a1.1 := by rw [← hr]; exact G_trackNeighbors _ _ _
  have hidr : IdS s r.1 := by unfold IdS; rw [G_ids hGr]; exact hI.2
  -- the last primitive
  have fin : ∀ a3 : UOut, AccQ (IdS s) a3 →
      AccQ (fun _ => True) (St.thenPrim a3 (fun st => st.pDelNode n px)) := by
    intro a3 h3
    apply h3.thenPrim
    intro st hst
    obtain ⟨st', r', hk⟩ := pDelNode_isOk (st := st) (by rw [hst]; exact hn) px
    exact ⟨st', r', hk, trivial⟩
  apply fin
  have base : AccQ (IdS s) (r.1, a1.2) := ⟨recs, e1, hidr⟩
  rcases hp : r.2.1 with _ | p
  · simp only []
    apply loop3_acc hasPred _ _ _ base
    intro io hio
    exact ho _ (List.of_mem_zip hio).2
  · rcases hs : r.2.2 with _ | sc
    · simp only []
      apply loop3_acc hasPred _ _ _ base
      intro io hio
      exact ho _ (List.of_mem_zip hio).2
    · simp only []
      apply loop3_acc hasPred
      · intro io hio
        exact ho _ (List.mem_of_mem_erase (List.of_mem_zip hio).2)
      · apply base.thenPrim
        intro st hst
        have hpm : p ∈ st.ids := by rw [hst, ← hI.2]; exact (sp1 p hp).1.1
        have hsm : sc ∈ st.ids := by rw [hst, ← hI.2]; exact (sp3 sc hs).1.1
        obtain ⟨st', r', hk⟩ := pAddEdge_isOk (s := st) (e := (p, sc)) [] hpm hsm
        refine ⟨st', r', hk, ?_⟩
        unfold IdS
        rw [ids_eq_nt, G_nt' (pAddEdge_G hk).2.2, ← ids_eq_nt]; exact hst

/-- **`UserDeleteNode` of an existing node of a valid solution is never refused** -/
theorem uDeleteNode_accepts {s : St} {n : Node} (hV : s.Valid) (hn : n ∈ s.ids)
    (px : Option (List Pix)) : ∃ recs, (s.uDeleteNode n px).2 = .ok recs := by
  rw [uDeleteNode_eq]
  have hN : s.hasNode n = true := tk_hasNode_iff.2 hn
  simp only [hN, Bool.not_true, Bool.false_eq_true, if_false]
  obtain ⟨r0, e0, hI0⟩ := loop1_acc hV n
  rw [e0]
  simp only []
  have hmid := mid_acc hV n
  obtain ⟨r1, e1, hI1⟩ := id hmid
  have hn1 : n ∈ (delNodeLoop2 (delNodeLoop1 s n) n).1.ids := by rw [hI1.2]; exact hn
  obtain ⟨tid, htid⟩ := R3B.tidOf_some_of_mem hn1
  have htime := tk_timeOf_of_mem hn1
  rw [e1, htid, htime]
  simp only []
  have ho : ∀ c ∈ (delNodeLoop1 s n).1.succs n, c ∈ s.ids := by
    intro c hc
    rw [← hI0.2]
    exact hI0.1.forest.dst_mem _ (tk_mem_succs.1 hc)
  obtain ⟨recs, h, _⟩ := tail_acc (!(s.preds n).isEmpty) px tid _ hn hmid ho
  exact ⟨recs, h⟩

end Ft.R3D
