/-
  FtProofs.R2BLemmas — package R2B: the joint invariant `St.Valid` through `uAddEdge`,
  `uDeleteEdge`, `uSwap`.

  Contents
  * §1 `AddG`: the graph effect of the relabel-and-link part of `uAddEdge` (ids, times, one new edge)
        and the forest shape after it (no lineage information needed, unlike `tk_AddEff`).
  * §2 the grafting counterparts of the edge-cut lemmas `tk_cutTid0/1`: `graftTid0` (the source had
        no child: the chain below the target joins the source's track) and `graftTid1` (the source
        had one child: that child's chain gets a fresh id, a division is created).
  * §3 `TidOK` (with forest shape and track-id bound) through `tk_addTail`, `uAddEdge`, `uSwap`,
        with frame clauses.
  * §4 `BookOK` through `tk_addTail`, `uAddEdge` (forced or not), `uSwap`: the invariant
        `LB = tk_LinInv ∧ BookOK` for solutions with lineage ids, `JOff` for `linOn = false`.
  * §5 the lineage frame clause and the track-id frame clause of `uSwap` (invariants `SwapL`, `SwapT`
        carried through the four nested actions).
  * §6 `Valid` through the three user actions.
  * §7 Boolean checker `validB` and the example state `exState` for the non-vacuity examples.
-/
import FtProofs.TrackLemmas
import FtProofs.BookLemmas
namespace Ft.R2B
open Ft Ft.St Ft.PC

/-! ## §1 graph effect of adding one edge -/

/-- the graph part of `tk_AddEff`: same nodes and times, exactly one new edge, and the source had at
    most one child -/
structure AddG (s0 : St) (e : Edge) (s' : St) : Prop where
  ids : s'.ids = s0.ids
  time : ∀ n, s'.timeOf n = s0.timeOf n
  edges : s'.edgeList = s0.edgeList ++ [e]
  outdeg : s0.outdeg e.1 ≤ 1

theorem AddG.mem {s0 s' : St} {e : Edge} (h : AddG s0 e s') (x : Edge) :
    x ∈ s'.edgeList ↔ (x ∈ s0.edgeList ∨ x = e) := by
  rw [h.edges, List.mem_append, List.mem_singleton]

theorem AddG.outdeg_ne {s0 s' : St} {e : Edge} (h : AddG s0 e s') {p : Node} (hp : p ≠ e.1) :
    s'.outdeg p = s0.outdeg p := by
  rw [tk_outdeg_eq, tk_outdeg_eq, h.edges, List.filter_append, List.length_append]
  have : ([e].filter (·.1 == p)) = [] := by simp [Ne.symm hp]
  rw [this]; simp

theorem AddG.outdeg_src {s0 s' : St} {e : Edge} (h : AddG s0 e s') :
    s'.outdeg e.1 = s0.outdeg e.1 + 1 := by
  rw [tk_outdeg_eq, tk_outdeg_eq, h.edges, List.filter_append, List.length_append]
  simp

theorem AddG.forest {s0 s' : St} {e : Edge} (hF : s0.Forest) (h : AddG s0 e s')
    (hu : e.1 ∈ s0.ids) (hv : e.2 ∈ s0.ids) (ht : s0.tk_tm e.1 < s0.tk_tm e.2)
    (hroot : ∀ p, (p, e.2) ∉ s0.edgeList) : s'.Forest where
  nodup_nodes := by rw [h.ids]; exact hF.nodup_nodes
  nodup_edges := by
    rw [h.edges, List.nodup_append]
    refine ⟨hF.nodup_edges, by simp, ?_⟩
    intro a ha b hb hab
    rw [List.mem_singleton] at hb
    subst hb; subst hab
    exact hroot _ ha
  src_mem := by
    intro x hx
    rw [h.edges, List.mem_append, List.mem_singleton] at hx
    rw [h.ids]
    rcases hx with hx | rfl
    · exact hF.src_mem x hx
    · exact hu
  dst_mem := by
    intro x hx
    rw [h.edges, List.mem_append, List.mem_singleton] at hx
    rw [h.ids]
    rcases hx with hx | rfl
    · exact hF.dst_mem x hx
    · exact hv
  forward := by
    intro x hx t1 t2
    rw [h.edges, List.mem_append, List.mem_singleton] at hx
    rw [h.time, h.time]
    rcases hx with hx | rfl
    · exact hF.forward x hx t1 t2
    · intro h1 h2
      rw [tk_timeOf_of_mem hu] at h1
      rw [tk_timeOf_of_mem hv] at h2
      cases h1; cases h2; exact ht
  indeg_le := by
    intro v
    rw [tk_indeg_eq, h.edges, List.filter_append, List.length_append, ← tk_indeg_eq]
    by_cases hve : e.2 = v
    · subst hve
      have := tk_preds_nil_iff.2 hroot
      rw [this]; simp
    · have : ([e].filter (·.2 == v)) = [] := by simp [hve]
      rw [this]; exact hF.indeg_le v
  outdeg_le := by
    intro u
    rw [tk_outdeg_eq, h.edges, List.filter_append, List.length_append, ← tk_outdeg_eq]
    by_cases hue : e.1 = u
    · subst hue
      have := h.outdeg
      have h2 : ([e].filter (·.1 == e.1)).length ≤ 1 := by simp
      omega
    · have : ([e].filter (·.1 == u)) = [] := by simp [hue]
      rw [this]; exact hF.outdeg_le u

/-- descendants in the graph with one more edge `(·, v)`: either already descendants, or below `v` -/
theorem AddG.anc {s0 s' : St} {e : Edge} (h : AddG s0 e s') {a n : Node} (hanc : s'.Anc a n) :
    s0.Anc a n ∨ s0.Anc e.2 n := by
  induction hanc with
  | refl => exact Or.inl (Anc.refl _)
  | step p c _ he ih =>
    rcases (h.mem _).1 he with he | he
    · rcases ih with ih | ih
      · exact Or.inl (Anc.step _ p c ih he)
      · exact Or.inr (Anc.step _ p c ih he)
    · subst he; exact Or.inr (Anc.refl _)

/-! ## §2 grafting: the counterparts of `tk_cutTid0/1` -/

/-- adding `(u,v)` below a childless `u`: the chain below the (parentless) `v` joins `u`'s track -/
theorem graftTid0 {s0 s' : St} (hI : s0.tk_TidInv) {u v : Node} {tu : Nat}
    (ht : s0.tk_tm u < s0.tk_tm v)
    (hroot : ∀ p, (p, v) ∉ s0.edgeList) (ho : s0.outdeg u = 0) (htu : s0.tidOf u = some tu)
    (hG : AddG s0 (u, v) s')
    (hin : ∀ n, s0.tk_SegDown v n → s'.tidOf n = some tu)
    (hout : ∀ n, ¬ s0.tk_SegDown v n → s'.tidOf n = s0.tidOf n) : s'.TidOK := by
  have hF := hI.forest
  have hu_out : ¬ s0.tk_SegDown v u := by
    intro h; have := h.anc.tm_le hF; omega
  have hnochild : ∀ c, (u, c) ∉ s0.edgeList := by
    intro c hc; have := tk_outdeg_pos hc; omega
  refine ⟨?_, ?_⟩
  · rintro ⟨p, c⟩ hx hop
    simp only at hop ⊢
    rcases (hG.mem _).1 hx with hx | hx
    · have hpu : p ≠ u := by intro heq; subst heq; exact hnochild c hx
      rw [hG.outdeg_ne (show p ≠ (u, v).1 from hpu)] at hop
      by_cases hp : s0.tk_SegDown v p
      · rw [hin c (hp.step _ _ _ hx hop), hin p hp]
      · have hcv : c ≠ v := by intro heq; subst heq; exact hroot p hx
        rw [hout c (tk_SegDown.closed hF hx hp hcv), hout p hp]
        exact hI.tidOK.along (p, c) hx hop
    · cases hx
      rw [hin v (tk_SegDown.refl v), hout u hu_out, htu]
  · intro a b ha hb hab
    have key : ∀ a, s'.IsHead a → s0.IsHead a ∧ s'.tidOf a = s0.tidOf a := by
      intro a ha
      have hav : a ≠ v := by
        intro heq; subst heq
        have h1 := ha.2 u ((hG.mem _).2 (Or.inr rfl))
        have h2 := hG.outdeg_src
        simp only at h2
        omega
      have hh : s0.IsHead a := by
        refine ⟨hG.ids ▸ ha.1, fun p hp => ?_⟩
        have hpu : p ≠ u := by intro heq; subst heq; exact hnochild a hp
        rw [← hG.outdeg_ne (show p ≠ (u, v).1 from hpu)]
        exact ha.2 p ((hG.mem _).2 (Or.inl hp))
      refine ⟨hh, hout a ?_⟩
      intro hseg; exact hseg.not_head hav hh
    rw [(key a ha).2, (key b hb).2]
    exact hI.tidOK.heads a b (key a ha).1 (key b hb).1 hab

/-- adding `(u,v)` below a `u` with one child `c0`: a division is created, the chain below `c0`
    gets the fresh id, `v` keeps its own -/
theorem graftTid1 {s0 s' : St} (hI : s0.tk_TidInv) {u v c0 : Node}
    (ho : s0.outdeg u = 1) (hc0 : (u, c0) ∈ s0.edgeList)
    (hG : AddG s0 (u, v) s')
    (hin : ∀ n, s0.tk_SegDown c0 n → s'.tidOf n = some (s0.maxTid + 1))
    (hout : ∀ n, ¬ s0.tk_SegDown c0 n → s'.tidOf n = s0.tidOf n) : s'.TidOK := by
  have hF := hI.forest
  have hfresh : ∀ n, s0.tidOf n ≠ some (s0.maxTid + 1) := by
    intro n hn; have := hI.max n _ hn; omega
  have hou' : s'.outdeg u = 2 := by
    have := hG.outdeg_src
    simp only at this
    omega
  refine ⟨?_, ?_⟩
  · rintro ⟨p, c⟩ hx hop
    simp only at hop ⊢
    have hpu : p ≠ u := by intro heq; subst heq; omega
    rcases (hG.mem _).1 hx with hx | hx
    · rw [hG.outdeg_ne (show p ≠ (u, v).1 from hpu)] at hop
      by_cases hp : s0.tk_SegDown c0 p
      · rw [hin c (hp.step _ _ _ hx hop), hin p hp]
      · have hcc : c ≠ c0 := by intro heq; subst heq; exact hpu (hF.par_unique hx hc0)
        rw [hout c (tk_SegDown.closed hF hx hp hcc), hout p hp]
        exact hI.tidOK.along (p, c) hx hop
    · cases hx; exact absurd rfl hpu
  · intro a b ha hb hab
    have key : ∀ a, s'.IsHead a → (a = c0 ∧ s'.tidOf a = some (s0.maxTid + 1)) ∨
        (a ≠ c0 ∧ s0.IsHead a ∧ s'.tidOf a = s0.tidOf a) := by
      intro a ha
      by_cases hac : a = c0
      · subst hac; exact Or.inl ⟨rfl, hin a (tk_SegDown.refl a)⟩
      · have hh : s0.IsHead a := by
          refine ⟨hG.ids ▸ ha.1, fun p hp => ?_⟩
          have hpu : p ≠ u := by
            intro heq; subst heq
            exact hac (tk_child_unique ho hp hc0)
          rw [← hG.outdeg_ne (show p ≠ (u, v).1 from hpu)]
          exact ha.2 p ((hG.mem _).2 (Or.inl hp))
        refine Or.inr ⟨hac, hh, hout a ?_⟩
        intro hseg; exact hseg.not_head hac hh
    rcases key a ha with ⟨ha1, ha2⟩ | ⟨ha1, ha2, ha3⟩ <;>
      rcases key b hb with ⟨hb1, hb2⟩ | ⟨hb1, hb2, hb3⟩
    · exact absurd (ha1.trans hb1.symm) hab
    · rw [ha2, hb3]; exact fun h => hfresh b h.symm
    · rw [ha3, hb2]; exact hfresh a
    · rw [ha3, hb3]; exact hI.tidOK.heads a b ha2 hb2 hab

/-! ## §3 `TidOK` through `uAddEdge` and `uSwap` -/

theorem uDeleteEdge_sameG {s : St} {e : Edge} {recs} (hok : (s.uDeleteEdge e).2 = .ok recs) :
    e ∈ s.edgeList ∧ tk_SameG (s.tk_delE e) (s.uDeleteEdge e).1 := by
  refine ⟨tk_hasEdge_iff.1 (tk_uDeleteEdge_hasEdge hok), ?_⟩
  rcases tk_uDeleteEdge_shape hok with ⟨r, _, _, hs'⟩ | ⟨sib, t, rs, t2, r2, _, _, _, _, _, _, hs'⟩
  · rw [hs']; exact tk_walk_sameG _ _ _ _ _ _
  · rw [hs']; exact (tk_walk_sameG _ _ _ _ _ _).trans (tk_walk_sameG _ _ _ _ _ _)

theorem uDeleteEdge_edge_iff {s : St} {e : Edge} {recs} (hok : (s.uDeleteEdge e).2 = .ok recs)
    (x : Edge) : x ∈ (s.uDeleteEdge e).1.edgeList ↔ (x ∈ s.edgeList ∧ x ≠ e) := by
  rw [(uDeleteEdge_sameG hok).2.edgeList]; exact tk_mem_delE

/-- the relabel-and-link part of `uAddEdge` re-establishes the track-id bundle; only descendants of
    the two end points can change their track id -/
theorem addTail_tidInv {a0 : UOut} (hI : a0.1.tk_TidInv) {e : Edge} {recs}
    (hu : e.1 ∈ a0.1.ids) (hv : e.2 ∈ a0.1.ids) (ht : a0.1.tk_tm e.1 < a0.1.tk_tm e.2)
    (hroot : ∀ p, (p, e.2) ∉ a0.1.edgeList)
    (hok : (tk_addTail a0 e).2 = .ok recs) :
    (tk_addTail a0 e).1.tk_TidInv ∧ AddG a0.1 e (tk_addTail a0 e).1 ∧
    (∀ n, ¬ a0.1.Anc e.1 n → ¬ a0.1.Anc e.2 n → (tk_addTail a0 e).1.tidOf n = a0.1.tidOf n) := by
  obtain ⟨u, v⟩ := e
  simp only at hu hv ht hroot
  have hF := hI.forest
  have hne : (u, v) ∉ a0.1.edgeList := fun h => hroot u h
  rcases tk_addTail_shape hok with ⟨t, r, rr, ho, htu, hr, hadd⟩ |
      ⟨succ, rs, t, r, rr, ho, hh, hrs, ht2, hr, hadd⟩
  · simp only at ho htu hr hadd
    have hG := tk_walk_sameG a0.1 v r.tid t r.lin (a0.1.linOf u)
    have hw := tk_walk_tid hF hv r.tid t r.lin (a0.1.linOf u) (tk_tidOf_of_findNode hr)
      (hI.tidOK.chainHyp hF hv (tk_tidOf_of_findNode hr))
    have hp := tk_pAddEdge_spec hadd (by rw [hG.edgeList]; exact hne)
    have hmt := tk_walk_maxTid a0.1 v r.tid t r.lin (a0.1.linOf u)
    have htmax : t ≤ a0.1.maxTid := hI.max u t htu
    have hAG : AddG a0.1 (u, v) (tk_addTail a0 (u, v)).1 :=
      ⟨by unfold ids; rw [hp.1]; exact hG.ids, fun n => by rw [tk_timeOf_congr hp.1]; exact hG.time n,
       by rw [hp.2.1, hG.edgeList], by simp only; omega⟩
    have hin : ∀ n, a0.1.tk_SegDown v n → (tk_addTail a0 (u, v)).1.tidOf n = some t := by
      intro n hn; rw [tk_tidOf_congr hp.1]; exact hw.1 n hn
    have hout : ∀ n, ¬ a0.1.tk_SegDown v n → (tk_addTail a0 (u, v)).1.tidOf n = a0.1.tidOf n := by
      intro n hn; rw [tk_tidOf_congr hp.1]; exact hw.2 n hn
    refine ⟨⟨hAG.forest hF hu hv ht hroot, graftTid0 hI ht hroot ho htu hAG hin hout, ?_⟩, hAG, ?_⟩
    · intro n tt hn
      rw [hp.2.2.2.2, hmt, if_neg (by omega)]
      by_cases hseg : a0.1.tk_SegDown v n
      · rw [hin n hseg] at hn; cases hn; exact htmax
      · rw [hout n hseg] at hn; exact hI.max n tt hn
    · intro n _ hn2; exact hout n (fun h => hn2 h.anc)
  · simp only at ho hh hrs ht2 hr hadd
    have hc0 : (u, succ) ∈ a0.1.edgeList := tk_mem_succs.1 (List.mem_of_head? hh)
    have hsi : succ ∈ a0.1.ids := hF.dst_mem _ hc0
    have hGb := tk_walk_sameG a0.1 succ rs.tid a0.1.nextTid rs.lin none
    have hwb := tk_walk_tid hF hsi rs.tid a0.1.nextTid rs.lin none (tk_tidOf_of_findNode hrs)
      (hI.tidOK.chainHyp hF hsi (tk_tidOf_of_findNode hrs))
    have hmtb := tk_walk_maxTid a0.1 succ rs.tid a0.1.nextTid rs.lin none
    have ht2' : t = r.tid := by
      have := tk_tidOf_of_findNode hr; rw [ht2] at this; cases this; rfl
    subst ht2'
    have hnt : a0.1.nextTid = a0.1.maxTid + 1 := rfl
    rw [hnt] at hGb hwb hmtb hr hadd ht2
    rw [if_pos (by omega)] at hmtb
    obtain ⟨hwb1, hwb2⟩ := hwb
    generalize a0.1.walk succ rs.tid (a0.1.maxTid + 1) rs.lin none = s1 at hGb hwb1 hwb2 hmtb hr hadd ht2
    have hG := tk_walk_sameG s1 v r.tid r.tid r.lin (s1.linOf u)
    have hsame := tk_walk_tid_same s1 v r.tid r.lin (s1.linOf u)
    have hmt := tk_walk_maxTid s1 v r.tid r.tid r.lin (s1.linOf u)
    have hp := tk_pAddEdge_spec hadd (by rw [hG.edgeList, hGb.edgeList]; exact hne)
    have hAG : AddG a0.1 (u, v) (tk_addTail a0 (u, v)).1 :=
      ⟨by unfold ids; rw [hp.1]; exact (hGb.trans hG).ids,
       fun n => by rw [tk_timeOf_congr hp.1]; exact (hGb.trans hG).time n,
       by rw [hp.2.1, hG.edgeList, hGb.edgeList], by simp only; omega⟩
    have hin : ∀ n, a0.1.tk_SegDown succ n →
        (tk_addTail a0 (u, v)).1.tidOf n = some (a0.1.maxTid + 1) := by
      intro n hn; rw [tk_tidOf_congr hp.1, hsame]; exact hwb1 n hn
    have hout : ∀ n, ¬ a0.1.tk_SegDown succ n → (tk_addTail a0 (u, v)).1.tidOf n = a0.1.tidOf n := by
      intro n hn; rw [tk_tidOf_congr hp.1, hsame]; exact hwb2 n hn
    refine ⟨⟨hAG.forest hF hu hv ht hroot, graftTid1 hI ho hc0 hAG hin hout, ?_⟩, hAG, ?_⟩
    · have hall : ∀ n tt, (tk_addTail a0 (u, v)).1.tidOf n = some tt → tt ≤ a0.1.maxTid + 1 := by
        intro n tt hn
        by_cases hseg : a0.1.tk_SegDown succ n
        · rw [hin n hseg] at hn; cases hn; exact Nat.le_refl _
        · rw [hout n hseg] at hn; have := hI.max n tt hn; omega
      intro n tt hn
      have h1 := hall n tt hn
      rw [hp.2.2.2.2, hmt, hmtb]
      split <;> omega
    · intro n hn1 _
      apply hout
      intro hseg; exact hn1 (Anc.cons hc0 hseg.anc)

/-- without `force`, an accepted `uAddEdge` starts from the input state and the target is parentless -/
theorem addHead_false {s : St} {e : Edge} {recs0} (hok : (tk_addHead s e false).2 = .ok recs0) :
    (tk_addHead s e false).1 = s ∧ ∀ p, (p, e.2) ∉ s.edgeList := by
  unfold tk_addHead at hok ⊢
  by_cases hin : s.indeg e.2 > 0
  · simp [hin] at hok
  · simp only [hin, if_false]
    exact ⟨trivial, tk_preds_nil_iff.1 (by omega)⟩

/-- decomposition of an accepted `uAddEdge`: the state `s0` after the optional forced removal (the
    input state, or the result of an accepted nested `uDeleteEdge (p, e.2)`), then `tk_addTail` -/
theorem uAddEdge_split {s : St} {e : Edge} {force : Bool} {recs}
    (hok : (s.uAddEdge e force).2 = .ok recs) :
    e.1 ∈ s.ids ∧ e.2 ∈ s.ids ∧ s.tk_tm e.1 < s.tk_tm e.2 ∧
    ∃ a0 : UOut, (tk_addTail a0 e).2 = .ok recs ∧ (s.uAddEdge e force).1 = (tk_addTail a0 e).1 ∧
      ((a0.1 = s ∧ ∀ p, (p, e.2) ∉ s.edgeList) ∨
       (force = true ∧ ∃ p recs', (p, e.2) ∈ s.edgeList ∧ (s.uDeleteEdge (p, e.2)).2 = .ok recs' ∧
          a0.1 = (s.uDeleteEdge (p, e.2)).1)) := by
  have hn := tk_uAddEdge_ok_nodes hok
  refine ⟨hn.1, hn.2.1, hn.2.2, ?_⟩
  rw [tk_uAddEdge_eq] at hok ⊢
  have h1 := tk_hasNode_iff.2 hn.1
  have h2 := tk_hasNode_iff.2 hn.2.1
  have h3 : ¬ (s.timeOf e.1).getD 0 ≥ (s.timeOf e.2).getD 0 := by
    have := hn.2.2; unfold tk_tm at this; omega
  simp only [h1, h2, h3, Bool.not_true, Bool.false_eq_true, if_false] at hok ⊢
  refine ⟨tk_addHead s e force, hok, rfl, ?_⟩
  rcases tk_addTail_ok_head hok with ⟨recs0, h0⟩
  cases force with
  | false => exact Or.inl (addHead_false h0)
  | true =>
    rcases tk_addHead_shape h0 with h | ⟨p, recs', hp, hdel, hs0⟩
    · exact Or.inl h
    · exact Or.inr ⟨rfl, p, recs', hp, hdel, hs0⟩

/-- accepted `uAddEdge` (forced or not): track-id bundle preserved + frame (only descendants of the
    source, of the target, or of the target's former parent can change their track id) -/
theorem uAddEdge_tidInv {s : St} (hI : s.tk_TidInv) {e : Edge} {force : Bool} {recs}
    (hok : (s.uAddEdge e force).2 = .ok recs) :
    (s.uAddEdge e force).1.tk_TidInv ∧
    ∀ n, ¬ s.Anc e.1 n → ¬ s.Anc e.2 n → (∀ p, (p, e.2) ∈ s.edgeList → ¬ s.Anc p n) →
      (s.uAddEdge e force).1.tidOf n = s.tidOf n := by
  obtain ⟨hu, hv, ht, a0, hok', hst, hcase⟩ := uAddEdge_split hok
  rw [hst]
  have hF := hI.forest
  rcases hcase with ⟨hs0, hroot⟩ | ⟨_, p, recs', hp, hdel, hs0⟩
  · have h := addTail_tidInv (a0 := a0) (by rw [hs0]; exact hI) (by rw [hs0]; exact hu)
      (by rw [hs0]; exact hv) (by rw [hs0]; exact ht) (by rw [hs0]; exact hroot) hok'
    refine ⟨h.1, fun n hn1 hn2 _ => ?_⟩
    rw [h.2.2 n, hs0]
    · rw [hs0]; exact hn1
    · rw [hs0]; exact hn2
  · have hd := tk_uDeleteEdge_tidInv hI hdel
    obtain ⟨_, hsG⟩ := uDeleteEdge_sameG hdel
    have hids : (s.uDeleteEdge (p, e.2)).1.ids = s.ids := hsG.ids
    have htime : ∀ n, (s.uDeleteEdge (p, e.2)).1.timeOf n = s.timeOf n := hsG.time
    have hroot : ∀ q, (q, e.2) ∉ (s.uDeleteEdge (p, e.2)).1.edgeList := by
      intro q hq
      rcases (uDeleteEdge_edge_iff hdel _).1 hq with ⟨hq1, hq2⟩
      have := hF.par_unique hq1 hp
      subst this; exact hq2 rfl
    have hmono : ∀ a n, (s.uDeleteEdge (p, e.2)).1.Anc a n → s.Anc a n :=
      fun a n => Anc.mono (fun x hx => ((uDeleteEdge_edge_iff hdel x).1 hx).1)
    have h := addTail_tidInv (a0 := a0) (by rw [hs0]; exact hd.1) (by rw [hs0, hids]; exact hu)
      (by rw [hs0, hids]; exact hv)
      (by rw [hs0, tk_tm_congr htime, tk_tm_congr htime]; exact ht) (by rw [hs0]; exact hroot) hok'
    refine ⟨h.1, fun n hn1 hn2 hn3 => ?_⟩
    rw [h.2.2 n, hs0]
    · exact hd.2 n (hn3 p hp)
    · rw [hs0]; exact fun hanc => hn1 (hmono _ _ hanc)
    · rw [hs0]; exact fun hanc => hn2 (hmono _ _ hanc)

/-- frame clause in terms of connectivity: a node connected to neither end point keeps its id -/
theorem uAddEdge_tid_frame {s : St} (hI : s.tk_TidInv) {e : Edge} {force : Bool} {recs}
    (hok : (s.uAddEdge e force).2 = .ok recs) (n : Node)
    (hn1 : ¬ s.Conn n e.1) (hn2 : ¬ s.Conn n e.2) :
    (s.uAddEdge e force).1.tidOf n = s.tidOf n := by
  have hF := hI.forest
  obtain ⟨hu, hv, _⟩ := tk_uAddEdge_ok_nodes hok
  apply (uAddEdge_tidInv hI hok).2 n
  · exact fun hanc => hn1 ((hanc.conn hu).symm hF)
  · exact fun hanc => hn2 ((hanc.conn hv).symm hF)
  · intro p hp hanc
    apply hn2
    have hcp : s.Conn e.2 p := Conn.up e.2 p e.2 (Conn.refl _ hv) hp
    exact ((hcp.trans (hanc.conn (hF.src_mem _ hp))).symm hF)

/-- accepted `uSwap` re-establishes the track-id bundle -/
theorem uSwap_tidInv {s : St} (hI : s.tk_TidInv) {n1 n2 : Node} {recs}
    (hok : (s.uSwap n1 n2).2 = .ok recs) : (s.uSwap n1 n2).1.tk_TidInv := by
  rw [tk_uSwap_eq] at hok ⊢
  generalize (!(s.hasNode n1) || !(s.hasNode n2)) = c1 at hok ⊢
  generalize ((s.preds n1).head?.isNone && (s.preds n2).head?.isNone) = c2 at hok ⊢
  generalize ((s.preds n1).head? == (s.preds n2).head?) = c3 at hok ⊢
  generalize tk_swapBad s (s.preds n1).head? ((s.timeOf n2).getD 0) = c4 at hok ⊢
  generalize tk_swapBad s (s.preds n2).head? ((s.timeOf n1).getD 0) = c5 at hok ⊢
  cases c1 <;> cases c2 <;> cases c3 <;> cases c4 <;> cases c5 <;>
    simp only [if_true, if_false, Bool.false_eq_true, reduceCtorEq] at hok ⊢
  have hA : ∀ (n : Node) p st r, St.tk_TidInv st → (st.uAddEdge (p, n) false).2 = .ok r →
      St.tk_TidInv (st.uAddEdge (p, n) false).1 :=
    fun n p st r hP hr => (uAddEdge_tidInv hP hr).1
  have hD : ∀ (n : Node) p st r, St.tk_TidInv st → (st.uDeleteEdge (p, n)).2 = .ok r →
      St.tk_TidInv (st.uDeleteEdge (p, n)).1 :=
    fun n p st r hP hr => (tk_uDeleteEdge_tidInv hP hr).1
  rcases tk_optStep_inv St.tk_TidInv (hA n1) hok with ⟨⟨r3, h3ok⟩, i4⟩
  rcases tk_optStep_inv St.tk_TidInv (hA n2) h3ok with ⟨⟨r2, h2ok⟩, i3⟩
  rcases tk_optStep_inv St.tk_TidInv (hD n2) h2ok with ⟨⟨r1, h1ok⟩, i2⟩
  rcases tk_optStep_inv St.tk_TidInv (hD n1) h1ok with ⟨_, i1⟩
  exact i4 (i3 (i2 (i1 hI)))

/-! ## §4 `BookOK` through `uAddEdge` and `uSwap` -/

theorem pUpdTid_of_find {s : St} {start : Node} {r : NodeRec} (hr : s.findNode start = some r)
    (newT : Nat) (newL : Option Nat) :
    s.pUpdTid start newT newL =
      .ok (s.walk start r.tid newT r.lin newL, .updTid start r.tid newT r.lin newL) := by
  unfold pUpdTid; rw [hr]

/-- graph effect of the relabel-and-link part (no invariant needed) -/
theorem addTail_graph {a0 : UOut} {e : Edge} {recs} (hne : e ∉ a0.1.edgeList)
    (hok : (tk_addTail a0 e).2 = .ok recs) : AddG a0.1 e (tk_addTail a0 e).1 := by
  rcases tk_addTail_shape hok with ⟨t, r, rr, ho, _, _, hadd⟩ |
      ⟨succ, rs, t, r, rr, ho, _, _, _, _, hadd⟩
  · have hG := tk_walk_sameG a0.1 e.2 r.tid t r.lin (a0.1.linOf e.1)
    have hp := tk_pAddEdge_spec hadd (by rw [hG.edgeList]; exact hne)
    exact ⟨by unfold ids; rw [hp.1]; exact hG.ids,
      fun n => by rw [tk_timeOf_congr hp.1]; exact hG.time n, by rw [hp.2.1, hG.edgeList], by omega⟩
  · have hGb := tk_walk_sameG a0.1 succ rs.tid a0.1.nextTid rs.lin none
    have hG := tk_walk_sameG (a0.1.walk succ rs.tid a0.1.nextTid rs.lin none) e.2 r.tid t r.lin
      ((a0.1.walk succ rs.tid a0.1.nextTid rs.lin none).linOf e.1)
    have hp := tk_pAddEdge_spec hadd (by rw [hG.edgeList, hGb.edgeList]; exact hne)
    exact ⟨by unfold ids; rw [hp.1]; exact (hGb.trans hG).ids,
      fun n => by rw [tk_timeOf_congr hp.1]; exact (hGb.trans hG).time n,
      by rw [hp.2.1, hG.edgeList, hGb.edgeList], by omega⟩

/-- the lookups through the relabel-and-link part, under the joint invariant of `BookLemmas` -/
theorem addTail_book {a0 : UOut} (hI : PC.Inv a0.1) {e : Edge} {recs}
    (hok : (tk_addTail a0 e).2 = .ok recs) :
    TOK (tk_addTail a0 e).1 ∧ LOK (tk_addTail a0 e).1 := by
  rcases tk_addTail_shape hok with ⟨t, r, rr, _, _, hr, hadd⟩ |
      ⟨succ, rs, t, r, rr, _, _, hrs, _, hr, hadd⟩
  · have hbv := pAddEdge_BV hadd
    obtain ⟨hT, hL, _⟩ := pUpdTid_book hI.forest hI.tok hI.lok hI.along
      (pUpdTid_of_find hr t (a0.1.linOf e.1))
    exact ⟨hbv.TOK hT, hbv.LOK hL⟩
  · have hbv := pAddEdge_BV hadd
    have hI1 := pUpdTid_none_inv hI (pUpdTid_of_find hrs a0.1.nextTid none)
    obtain ⟨hT, hL, _⟩ := pUpdTid_book hI1.forest hI1.tok hI1.lok hI1.along
      (pUpdTid_of_find hr t ((a0.1.walk succ rs.tid a0.1.nextTid rs.lin none).linOf e.1))
    exact ⟨hbv.TOK hT, hbv.LOK hL⟩

/-- generic plumbing: a predicate preserved by accepted `uDeleteEdge` and by the relabel-and-link
    part is preserved by accepted `uAddEdge` (forced or not) -/
theorem uAddEdge_inv (P : St → Prop) (hPF : ∀ st, P st → st.Forest)
    (hD : ∀ st e r, P st → (St.uDeleteEdge st e).2 = .ok r → P (St.uDeleteEdge st e).1)
    (hT : ∀ (a0 : UOut) e r, P a0.1 → e.1 ∈ a0.1.ids → e.2 ∈ a0.1.ids →
        a0.1.tk_tm e.1 < a0.1.tk_tm e.2 → (∀ p, (p, e.2) ∉ a0.1.edgeList) →
        (tk_addTail a0 e).2 = .ok r → P (tk_addTail a0 e).1)
    {s : St} {e : Edge} {force : Bool} {recs} (hP : P s)
    (hok : (s.uAddEdge e force).2 = .ok recs) : P (s.uAddEdge e force).1 := by
  obtain ⟨hu, hv, ht, a0, hok', hst, hcase⟩ := uAddEdge_split hok
  rw [hst]
  have hF := hPF s hP
  rcases hcase with ⟨hs0, hroot⟩ | ⟨_, p, recs', hp, hdel, hs0⟩
  · exact hT a0 e recs (by rw [hs0]; exact hP) (by rw [hs0]; exact hu)
      (by rw [hs0]; exact hv) (by rw [hs0]; exact ht) (by rw [hs0]; exact hroot) hok'
  · obtain ⟨_, hsG⟩ := uDeleteEdge_sameG hdel
    have hids : (s.uDeleteEdge (p, e.2)).1.ids = s.ids := hsG.ids
    have htime : ∀ n, (s.uDeleteEdge (p, e.2)).1.timeOf n = s.timeOf n := hsG.time
    have hroot : ∀ q, (q, e.2) ∉ (s.uDeleteEdge (p, e.2)).1.edgeList := by
      intro q hq
      rcases (uDeleteEdge_edge_iff hdel _).1 hq with ⟨hq1, hq2⟩
      have := hF.par_unique hq1 hp
      subst this; exact hq2 rfl
    exact hT a0 e recs (by rw [hs0]; exact hD s _ _ hP hdel) (by rw [hs0, hids]; exact hu)
      (by rw [hs0, hids]; exact hv)
      (by rw [hs0, tk_tm_congr htime, tk_tm_congr htime]; exact ht) (by rw [hs0]; exact hroot) hok'

/-- generic plumbing for `uSwap` -/
theorem uSwap_inv (P : St → Prop)
    (hD : ∀ st e r, P st → (St.uDeleteEdge st e).2 = .ok r → P (St.uDeleteEdge st e).1)
    (hA : ∀ st e r, P st → (St.uAddEdge st e false).2 = .ok r → P (St.uAddEdge st e false).1)
    {s : St} {n1 n2 : Node} {recs} (hP : P s)
    (hok : (s.uSwap n1 n2).2 = .ok recs) : P (s.uSwap n1 n2).1 := by
  rw [tk_uSwap_eq] at hok ⊢
  generalize (!(s.hasNode n1) || !(s.hasNode n2)) = c1 at hok ⊢
  generalize ((s.preds n1).head?.isNone && (s.preds n2).head?.isNone) = c2 at hok ⊢
  generalize ((s.preds n1).head? == (s.preds n2).head?) = c3 at hok ⊢
  generalize tk_swapBad s (s.preds n1).head? ((s.timeOf n2).getD 0) = c4 at hok ⊢
  generalize tk_swapBad s (s.preds n2).head? ((s.timeOf n1).getD 0) = c5 at hok ⊢
  cases c1 <;> cases c2 <;> cases c3 <;> cases c4 <;> cases c5 <;>
    simp only [if_true, if_false, Bool.false_eq_true, reduceCtorEq] at hok ⊢
  have hA' : ∀ (n : Node) p st r, P st → (St.uAddEdge st (p, n) false).2 = .ok r →
      P (St.uAddEdge st (p, n) false).1 := fun n p st r hP hr => hA st _ r hP hr
  have hD' : ∀ (n : Node) p st r, P st → (St.uDeleteEdge st (p, n)).2 = .ok r →
      P (St.uDeleteEdge st (p, n)).1 := fun n p st r hP hr => hD st _ r hP hr
  rcases tk_optStep_inv P (hA' n1) hok with ⟨⟨r3, h3ok⟩, i4⟩
  rcases tk_optStep_inv P (hA' n2) h3ok with ⟨⟨r2, h2ok⟩, i3⟩
  rcases tk_optStep_inv P (hD' n2) h2ok with ⟨⟨r1, h1ok⟩, i2⟩
  rcases tk_optStep_inv P (hD' n1) h1ok with ⟨_, i1⟩
  exact i4 (i3 (i2 (i1 hP)))

/-! ### solutions with lineage ids: `LB = tk_LinInv ∧ BookOK` -/

structure LB (s : St) : Prop where
  lin : s.tk_LinInv
  book : BookOK s

theorem LB.inv {s : St} (h : LB s) : PC.Inv s :=
  ⟨h.lin.forest, ((bookOK_iff s).1 h.book).1, ((bookOK_iff s).1 h.book).2, h.lin.linOK.along⟩

theorem LB_del {s : St} (h : LB s) {e : Edge} {recs} (hok : (s.uDeleteEdge e).2 = .ok recs) :
    LB (s.uDeleteEdge e).1 := by
  obtain ⟨h1, h2, _⟩ := uDeleteEdge_book e h.inv hok
  exact ⟨(tk_uDeleteEdge_linInv h.lin hok).1, (bookOK_iff _).2 ⟨h1, h2⟩⟩

theorem LB_addTail {a0 : UOut} (h : LB a0.1) {e : Edge} {recs}
    (hu : e.1 ∈ a0.1.ids) (hv : e.2 ∈ a0.1.ids) (ht : a0.1.tk_tm e.1 < a0.1.tk_tm e.2)
    (hroot : ∀ p, (p, e.2) ∉ a0.1.edgeList)
    (hok : (tk_addTail a0 e).2 = .ok recs) : LB (tk_addTail a0 e).1 := by
  have heff := tk_addTail_eff h.lin hu hroot hok
  obtain ⟨h1, h2⟩ := addTail_book h.inv hok
  exact ⟨heff.linInv h.lin hu hv ht hroot, (bookOK_iff _).2 ⟨h1, h2⟩⟩

theorem LB_add {s : St} (h : LB s) {e : Edge} {force : Bool} {recs}
    (hok : (s.uAddEdge e force).2 = .ok recs) : LB (s.uAddEdge e force).1 :=
  uAddEdge_inv LB (fun _ h => h.lin.forest) (fun _ _ _ h hok => LB_del h hok)
    (fun _ _ _ h hu hv ht hroot hok => LB_addTail h hu hv ht hroot hok) h hok

theorem LB_swap {s : St} (h : LB s) {n1 n2 : Node} {recs}
    (hok : (s.uSwap n1 n2).2 = .ok recs) : LB (s.uSwap n1 n2).1 :=
  uSwap_inv LB (fun _ _ _ h hok => LB_del h hok) (fun _ _ _ h hok => LB_add h hok) h hok

/-! ### lineage feature off: the walks never touch lineages or the lineage lookup -/

structure JOff (s : St) : Prop where
  forest : s.Forest
  book : BookOK s
  off : s.linOn = false

theorem walk_JOff {s : St} (hJ : JOff s) {start : Node} (hs : start ∈ s.ids)
    (oldT newT : Nat) (oldL newL : Option Nat) : JOff (s.walk start oldT newT oldL newL) := by
  obtain ⟨hT, hL⟩ := (bookOK_iff s).1 hJ.book
  refine ⟨walk_Forest hJ.forest hs _ _ _ _, (bookOK_iff _).2
    ⟨walk_TOK hJ.forest hT hs _ _ _ _, walk_LOK hJ.forest hL hs _ _ _ _ ?_⟩, ?_⟩
  · intro hon; rw [hJ.off] at hon; cases hon
  · rw [(walk_frame hJ.forest hs oldT newT oldL newL).2.2.2.1]; exact hJ.off

theorem delE_JOff {s : St} (hJ : JOff s) (e : Edge) : JOff (s.tk_delE e) := by
  obtain ⟨hT, hL⟩ := (bookOK_iff s).1 hJ.book
  have hbv : BV s (s.tk_delE e) := BV_of_nodes rfl rfl rfl rfl rfl rfl
  exact ⟨hJ.forest.tk_delE e, (bookOK_iff _).2 ⟨hbv.TOK hT, hbv.LOK hL⟩, hJ.off⟩

theorem JOff_del {s : St} (hJ : JOff s) {e : Edge} {recs} (hok : (s.uDeleteEdge e).2 = .ok recs) :
    JOff (s.uDeleteEdge e).1 := by
  have h1 := delE_JOff hJ e
  rcases tk_uDeleteEdge_shape hok with ⟨r, _, hr, hs'⟩ | ⟨sib, t, rs, t2, r2, _, _, _, hrs, _, hr2, hs'⟩
  · rw [hs']; exact walk_JOff h1 (tk_findNode_mem hr) _ _ _ _
  · rw [hs']
    exact walk_JOff (walk_JOff h1 (tk_findNode_mem hrs) _ _ _ _) (tk_findNode_mem hr2) _ _ _ _

theorem JOff_addTail {a0 : UOut} (hJ : JOff a0.1) {e : Edge} {recs}
    (hu : e.1 ∈ a0.1.ids) (hv : e.2 ∈ a0.1.ids) (ht : a0.1.tk_tm e.1 < a0.1.tk_tm e.2)
    (hroot : ∀ p, (p, e.2) ∉ a0.1.edgeList)
    (hok : (tk_addTail a0 e).2 = .ok recs) : JOff (tk_addTail a0 e).1 := by
  have hne : e ∉ a0.1.edgeList := fun h => hroot e.1 h
  have hAG := addTail_graph hne hok
  have hFo := hAG.forest hJ.forest hu hv ht hroot
  rcases tk_addTail_shape hok with ⟨t, r, rr, _, _, hr, hadd⟩ |
      ⟨succ, rs, t, r, rr, _, _, hrs, _, hr, hadd⟩
  · have hbv := pAddEdge_BV hadd
    have hJ1 := walk_JOff hJ (tk_findNode_mem hr) r.tid t r.lin (a0.1.linOf e.1)
    obtain ⟨hT, hL⟩ := (bookOK_iff _).1 hJ1.book
    have hG := tk_walk_sameG a0.1 e.2 r.tid t r.lin (a0.1.linOf e.1)
    have hp := tk_pAddEdge_spec hadd (by rw [hG.edgeList]; exact hne)
    exact ⟨hFo, (bookOK_iff _).2 ⟨hbv.TOK hT, hbv.LOK hL⟩, hp.2.2.1.trans hJ1.off⟩
  · have hbv := pAddEdge_BV hadd
    have hJb := walk_JOff hJ (tk_findNode_mem hrs) rs.tid a0.1.nextTid rs.lin none
    have hJ1 := walk_JOff hJb (tk_findNode_mem hr) r.tid t r.lin
      ((a0.1.walk succ rs.tid a0.1.nextTid rs.lin none).linOf e.1)
    obtain ⟨hT, hL⟩ := (bookOK_iff _).1 hJ1.book
    have hGb := tk_walk_sameG a0.1 succ rs.tid a0.1.nextTid rs.lin none
    have hG := tk_walk_sameG (a0.1.walk succ rs.tid a0.1.nextTid rs.lin none) e.2 r.tid t r.lin
      ((a0.1.walk succ rs.tid a0.1.nextTid rs.lin none).linOf e.1)
    have hp := tk_pAddEdge_spec hadd (by rw [hG.edgeList, hGb.edgeList]; exact hne)
    exact ⟨hFo, (bookOK_iff _).2 ⟨hbv.TOK hT, hbv.LOK hL⟩, hp.2.2.1.trans hJ1.off⟩

theorem JOff_add {s : St} (h : JOff s) {e : Edge} {force : Bool} {recs}
    (hok : (s.uAddEdge e force).2 = .ok recs) : JOff (s.uAddEdge e force).1 :=
  uAddEdge_inv JOff (fun _ h => h.forest) (fun _ _ _ h hok => JOff_del h hok)
    (fun _ _ _ h hu hv ht hroot hok => JOff_addTail h hu hv ht hroot hok) h hok

theorem JOff_swap {s : St} (h : JOff s) {n1 n2 : Node} {recs}
    (hok : (s.uSwap n1 n2).2 = .ok recs) : JOff (s.uSwap n1 n2).1 :=
  uSwap_inv JOff (fun _ _ _ h hok => JOff_del h hok) (fun _ _ _ h hok => JOff_add h hok) h hok

/-- `Forest ∧ BookOK ∧ LinOK` as the disjunction of the two invariants above -/
theorem LB_or_JOff {s : St} (hF : s.Forest) (hB : BookOK s) (hL : s.LinOK) : LB s ∨ JOff s := by
  cases hon : s.linOn with
  | true => exact Or.inl ⟨⟨hF, hL, hon, hB.l_max hon⟩, hB⟩
  | false => exact Or.inr ⟨hF, hB, hon⟩

/-! ## §5 lineage frame clause of `uSwap` -/

theorem uSwap_ok_nodes {s : St} {n1 n2 : Node} {recs} (hok : (s.uSwap n1 n2).2 = .ok recs) :
    n1 ∈ s.ids ∧ n2 ∈ s.ids := by
  rw [tk_uSwap_eq] at hok
  by_cases h1 : s.hasNode n1 = true
  · by_cases h2 : s.hasNode n2 = true
    · exact ⟨tk_hasNode_iff.1 h1, tk_hasNode_iff.1 h2⟩
    · simp [h1, h2] at hok
  · simp [h1] at hok

/-- graph effect of an accepted unforced `uAddEdge` -/
theorem uAddEdge_false_graph {s : St} {e : Edge} {recs} (hok : (s.uAddEdge e false).2 = .ok recs) :
    AddG s e (s.uAddEdge e false).1 := by
  obtain ⟨_, _, _, a0, hok', hst, hcase⟩ := uAddEdge_split hok
  rcases hcase with ⟨hs0, hroot⟩ | ⟨hf, _⟩
  · rw [hst]
    have := addTail_graph (a0 := a0) (e := e) (by rw [hs0]; exact fun h => hroot e.1 h) hok'
    rw [hs0] at this; exact this
  · cases hf

/-- the invariant carried through the four nested actions of `uSwap` for the lineage frame clause:
    descendants of `n1`/`n2` in the intermediate graphs are descendants of `n1`/`n2` in the input
    graph, and the observed node `n` still carries its lineage -/
def SwapL (s : St) (n1 n2 n : Node) (st : St) : Prop :=
  st.tk_LinInv ∧ (∀ x, st.Anc n1 x ∨ st.Anc n2 x → s.Anc n1 x ∨ s.Anc n2 x) ∧ st.linOf n = s.linOf n

theorem uSwap_lin_frame {s : St} (hI : s.tk_LinInv) {n1 n2 : Node} {recs}
    (hok : (s.uSwap n1 n2).2 = .ok recs) (n : Node) (hn1 : ¬ s.Anc n1 n) (hn2 : ¬ s.Anc n2 n) :
    (s.uSwap n1 n2).1.linOf n = s.linOf n := by
  have hD : ∀ (t : Node), (t = n1 ∨ t = n2) → ∀ p st r, SwapL s n1 n2 n st →
      (St.uDeleteEdge st (p, t)).2 = .ok r → SwapL s n1 n2 n (St.uDeleteEdge st (p, t)).1 := by
    intro t htt p st r ⟨hL, hR, hl⟩ hr
    have hd := tk_uDeleteEdge_linInv hL hr
    have hmono : ∀ a x, (St.uDeleteEdge st (p, t)).1.Anc a x → st.Anc a x :=
      fun a x => Anc.mono (fun y hy => ((uDeleteEdge_edge_iff hr y).1 hy).1)
    refine ⟨hd.1, ?_, ?_⟩
    · intro x hx
      exact hR x (hx.imp (hmono _ _) (hmono _ _))
    · rw [hd.2 n, hl]
      intro hanc
      simp only at hanc
      rcases hR n (by rcases htt with rfl | rfl; exact Or.inl hanc; exact Or.inr hanc) with h | h
      · exact hn1 h
      · exact hn2 h
  have hA : ∀ (t : Node), (t = n1 ∨ t = n2) → ∀ p st r, SwapL s n1 n2 n st →
      (St.uAddEdge st (p, t) false).2 = .ok r → SwapL s n1 n2 n (St.uAddEdge st (p, t) false).1 := by
    intro t htt p st r ⟨hL, hR, hl⟩ hr
    have hd := tk_uAddEdge_linInv hL hr
    have hG := uAddEdge_false_graph hr
    have hT : ∀ x, st.Anc t x → s.Anc n1 x ∨ s.Anc n2 x := by
      intro x hx
      exact hR x (by rcases htt with rfl | rfl; exact Or.inl hx; exact Or.inr hx)
    refine ⟨hd.1, ?_, ?_⟩
    · intro x hx
      rcases hx with hx | hx
      · rcases hG.anc hx with h | h
        · exact hR x (Or.inl h)
        · exact hT x h
      · rcases hG.anc hx with h | h
        · exact hR x (Or.inr h)
        · exact hT x h
    · rw [hd.2 n, hl]
      intro hanc
      rcases hT n hanc with h | h
      · exact hn1 h
      · exact hn2 h
  have h0 : SwapL s n1 n2 n s := ⟨hI, fun x hx => hx, rfl⟩
  revert hok
  rw [tk_uSwap_eq]
  intro hok
  generalize (!(s.hasNode n1) || !(s.hasNode n2)) = c1 at hok ⊢
  generalize ((s.preds n1).head?.isNone && (s.preds n2).head?.isNone) = c2 at hok ⊢
  generalize ((s.preds n1).head? == (s.preds n2).head?) = c3 at hok ⊢
  generalize tk_swapBad s (s.preds n1).head? ((s.timeOf n2).getD 0) = c4 at hok ⊢
  generalize tk_swapBad s (s.preds n2).head? ((s.timeOf n1).getD 0) = c5 at hok ⊢
  cases c1 <;> cases c2 <;> cases c3 <;> cases c4 <;> cases c5 <;>
    simp only [if_true, if_false, Bool.false_eq_true, reduceCtorEq] at hok ⊢
  rcases tk_optStep_inv (SwapL s n1 n2 n) (hA n1 (Or.inl rfl)) hok with ⟨⟨r3, h3ok⟩, i4⟩
  rcases tk_optStep_inv (SwapL s n1 n2 n) (hA n2 (Or.inr rfl)) h3ok with ⟨⟨r2, h2ok⟩, i3⟩
  rcases tk_optStep_inv (SwapL s n1 n2 n) (hD n2 (Or.inr rfl)) h2ok with ⟨⟨r1, h1ok⟩, i2⟩
  rcases tk_optStep_inv (SwapL s n1 n2 n) (hD n1 (Or.inl rfl)) h1ok with ⟨_, i1⟩
  exact (i4 (i3 (i2 (i1 h0)))).2.2

/-! ### track-id frame clause of `uSwap` -/

theorem optStep_inv' (P : St → Prop) {o : Option Node} {g : Node → St → UOut} {acc : UOut} {recs}
    (hg : ∀ p st r, o = some p → P st → (g p st).2 = .ok r → P (g p st).1)
    (h : (tk_optStep o g acc).2 = .ok recs) :
    (∃ r0, acc.2 = .ok r0) ∧ (P acc.1 → P (tk_optStep o g acc).1) := by
  cases o with
  | none => exact ⟨⟨recs, h⟩, id⟩
  | some p =>
    rcases tk_thenUser_ok h with ⟨r0, r1, h0, h1, h2⟩
    refine ⟨⟨r0, h0⟩, fun hP => ?_⟩
    show P (thenUser acc (g p)).1
    rw [h2]; exact hg p acc.1 r1 rfl hP h1

/-- `C s n1 n2 x`: `x` lies in the component of `n1` or of `n2` in the input graph -/
def InC (s : St) (n1 n2 x : Node) : Prop := s.Conn n1 x ∨ s.Conn n2 x

/-- invariant for the track-id frame clause: the union of the two components is closed under
    descendants in the intermediate graphs, and the observed node keeps its track id -/
def SwapT (s : St) (n1 n2 n : Node) (st : St) : Prop :=
  st.tk_TidInv ∧ (∀ a x, InC s n1 n2 a → st.Anc a x → InC s n1 n2 x) ∧ st.tidOf n = s.tidOf n

theorem uSwap_tid_frame {s : St} (hI : s.tk_TidInv) {n1 n2 : Node} {recs}
    (hok : (s.uSwap n1 n2).2 = .ok recs) (n : Node) (hn1 : ¬ s.Conn n1 n) (hn2 : ¬ s.Conn n2 n) :
    (s.uSwap n1 n2).1.tidOf n = s.tidOf n := by
  obtain ⟨hm1, hm2⟩ := uSwap_ok_nodes hok
  have hnC : ¬ InC s n1 n2 n := fun h => h.elim hn1 hn2
  have hc1 : InC s n1 n2 n1 := Or.inl (Conn.refl _ hm1)
  have hc2 : InC s n1 n2 n2 := Or.inr (Conn.refl _ hm2)
  have hpar : ∀ t p, InC s n1 n2 t → (s.preds t).head? = some p → InC s n1 n2 p := by
    intro t p ht hp
    have he : (p, t) ∈ s.edgeList := tk_mem_preds.1 (List.mem_of_head? hp)
    exact ht.imp (fun h => Conn.up _ p t h he) (fun h => Conn.up _ p t h he)
  have hD : ∀ (t : Node) p st r, InC s n1 n2 p → SwapT s n1 n2 n st →
      (St.uDeleteEdge st (p, t)).2 = .ok r → SwapT s n1 n2 n (St.uDeleteEdge st (p, t)).1 := by
    intro t p st r hp ⟨hT, hR, hl⟩ hr
    have hd := tk_uDeleteEdge_tidInv hT hr
    have hmono : ∀ a x, (St.uDeleteEdge st (p, t)).1.Anc a x → st.Anc a x :=
      fun a x => Anc.mono (fun y hy => ((uDeleteEdge_edge_iff hr y).1 hy).1)
    refine ⟨hd.1, fun a x ha hx => hR a x ha (hmono _ _ hx), ?_⟩
    rw [hd.2 n, hl]
    exact fun hanc => hnC (hR p n hp hanc)
  have hA : ∀ (t : Node) p st r, InC s n1 n2 t → InC s n1 n2 p → SwapT s n1 n2 n st →
      (St.uAddEdge st (p, t) false).2 = .ok r → SwapT s n1 n2 n (St.uAddEdge st (p, t) false).1 := by
    intro t p st r ht hp ⟨hT, hR, hl⟩ hr
    have hd := uAddEdge_tidInv hT hr
    have hG := uAddEdge_false_graph hr
    refine ⟨hd.1, ?_, ?_⟩
    · intro a x ha hx
      rcases hG.anc hx with h | h
      · exact hR a x ha h
      · exact hR t x ht h
    · rw [hd.2 n, hl]
      · exact fun hanc => hnC (hR p n hp hanc)
      · exact fun hanc => hnC (hR t n ht hanc)
      · intro q hq
        obtain ⟨_, _, _, a0, _, _, hcase⟩ := uAddEdge_split hr
        rcases hcase with ⟨_, hroot⟩ | ⟨hf, _⟩
        · exact absurd hq (hroot q)
        · cases hf
  have h0 : SwapT s n1 n2 n s := by
    refine ⟨hI, ?_, rfl⟩
    intro a x ha hx
    have hax : s.Conn a x := hx.conn (ha.elim (fun h => h.mem_right hI.forest) (fun h => h.mem_right hI.forest))
    exact ha.imp (fun h => h.trans hax) (fun h => h.trans hax)
  revert hok
  rw [tk_uSwap_eq]
  intro hok
  generalize (!(s.hasNode n1) || !(s.hasNode n2)) = c1 at hok ⊢
  generalize ((s.preds n1).head?.isNone && (s.preds n2).head?.isNone) = c2 at hok ⊢
  generalize ((s.preds n1).head? == (s.preds n2).head?) = c3 at hok ⊢
  generalize tk_swapBad s (s.preds n1).head? ((s.timeOf n2).getD 0) = c4 at hok ⊢
  generalize tk_swapBad s (s.preds n2).head? ((s.timeOf n1).getD 0) = c5 at hok ⊢
  cases c1 <;> cases c2 <;> cases c3 <;> cases c4 <;> cases c5 <;>
    simp only [if_true, if_false, Bool.false_eq_true, reduceCtorEq] at hok ⊢
  rcases optStep_inv' (SwapT s n1 n2 n)
    (fun p st r ho => hA n1 p st r hc1 (hpar n2 p hc2 ho)) hok with ⟨⟨r3, h3ok⟩, i4⟩
  rcases optStep_inv' (SwapT s n1 n2 n)
    (fun p st r ho => hA n2 p st r hc2 (hpar n1 p hc1 ho)) h3ok with ⟨⟨r2, h2ok⟩, i3⟩
  rcases optStep_inv' (SwapT s n1 n2 n)
    (fun p st r ho => hD n2 p st r (hpar n2 p hc2 ho)) h2ok with ⟨⟨r1, h1ok⟩, i2⟩
  rcases optStep_inv' (SwapT s n1 n2 n)
    (fun p st r ho => hD n1 p st r (hpar n1 p hc1 ho)) h1ok with ⟨_, i1⟩
  exact (i4 (i3 (i2 (i1 h0)))).2.2

/-! ## §6 `Valid` -/

theorem valid_tidInv {s : St} (h : s.Valid) : s.tk_TidInv := ⟨h.forest, h.tid, h.book.t_max⟩

theorem valid_lb {s : St} (h : s.Valid) : LB s :=
  ⟨⟨h.forest, h.lin, h.linOn, h.book.l_max h.linOn⟩, h.book⟩

theorem valid_of {s : St} (h1 : s.tk_TidInv) (h2 : LB s) : s.Valid :=
  ⟨h1.forest, h1.tidOK, h2.lin.linOK, h2.book, h2.lin.on⟩

theorem valid_del {s : St} (h : s.Valid) {e : Edge} {recs} (hok : (s.uDeleteEdge e).2 = .ok recs) :
    (s.uDeleteEdge e).1.Valid :=
  valid_of (tk_uDeleteEdge_tidInv (valid_tidInv h) hok).1 (LB_del (valid_lb h) hok)

theorem valid_add {s : St} (h : s.Valid) {e : Edge} {force : Bool} {recs}
    (hok : (s.uAddEdge e force).2 = .ok recs) : (s.uAddEdge e force).1.Valid :=
  valid_of (uAddEdge_tidInv (valid_tidInv h) hok).1 (LB_add (valid_lb h) hok)

theorem valid_swap {s : St} (h : s.Valid) {n1 n2 : Node} {recs}
    (hok : (s.uSwap n1 n2).2 = .ok recs) : (s.uSwap n1 n2).1.Valid :=
  valid_of (uSwap_tidInv (valid_tidInv h) hok) (LB_swap (valid_lb h) hok)

/-! ## §7 Boolean checker for concrete states (non-vacuity examples) -/

def validB (s : St) : Bool :=
  s.tk_forestB && s.tk_tidOKB && s.tk_linOKB && bookCheck s && s.linOn

theorem valid_of_check {s : St} (h : validB s = true) : s.Valid := by
  unfold validB at h
  simp only [Bool.and_eq_true] at h
  obtain ⟨⟨⟨⟨h1, h2⟩, h3⟩, h4⟩, h5⟩ := h
  exact ⟨tk_forestB_sound h1, tk_tidOKB_sound h2, tk_linOKB_sound h3, bookOK_of_check h4, h5⟩

/-- example state: 1 → 2 → {3, 4} (division at 2), 5 → 6 (skip edge), 7 isolated (time 4) -/
def exState : St :=
  { nodes := [⟨1, 0, 1, some 1, []⟩, ⟨2, 1, 1, some 1, []⟩, ⟨3, 2, 2, some 1, []⟩,
              ⟨4, 2, 3, some 1, []⟩, ⟨5, 0, 4, some 2, []⟩, ⟨6, 3, 4, some 2, []⟩,
              ⟨7, 4, 5, some 3, []⟩],
    edges := [⟨(1, 2), []⟩, ⟨(2, 3), []⟩, ⟨(2, 4), []⟩, ⟨(5, 6), []⟩],
    t2n := [(1, [1, 2]), (2, [3]), (3, [4]), (4, [5, 6]), (5, [7])],
    l2n := [(1, [1, 2, 3, 4]), (2, [5, 6]), (3, [7])],
    maxTid := 5, maxLin := 3, counter := 8 }

theorem exState_valid : exState.Valid := valid_of_check (by decide)

theorem exState_notConn {a b : Node} (h : exState.linOf a ≠ exState.linOf b) :
    ¬ exState.Conn a b :=
  fun hc => h (LinOK.of_conn exState_valid.lin hc)

end Ft.R2B
