/-
  FtProofs.SegLemmas — helper lemmas for C07 / C08 / C09 (label array, regionprops snapshots,
  IoU snapshots).
-/
import FtProofs.SessionSpec
namespace Ft
open List

/-! ### 1. array lemmas -/

theorem set_getD0_sg (d : List Nat) (p v i : Nat) :
    (d.set p v).getD i 0 = if i = p ∧ i < d.length then v else d.getD i 0 := by
  simp only [List.getD_eq_getElem?_getD, List.getElem?_set]
  by_cases h : p = i
  · subst h
    by_cases hl : p < d.length
    · simp [hl]
    · simp [hl]
  · have h' : ¬ i = p := fun e => h e.symm
    simp [h, h']

theorem foldl_set_length_sg (ps : List Nat) (v : Nat) (d : List Nat) :
    (ps.foldl (fun d p => d.set p v) d).length = d.length := by
  induction ps generalizing d with
  | nil => rfl
  | cons p ps ih => simp [List.foldl_cons, ih]

theorem foldl_set_getD_sg (ps : List Nat) (v : Nat) (d : List Nat) (i : Nat) :
    (ps.foldl (fun d p => d.set p v) d).getD i 0
      = if i ∈ ps ∧ i < d.length then v else d.getD i 0 := by
  induction ps generalizing d with
  | nil => simp
  | cons p ps ih =>
    rw [List.foldl_cons, ih, set_getD0_sg]
    simp only [List.length_set, List.mem_cons]
    by_cases h1 : i ∈ ps <;> by_cases h2 : i = p <;> by_cases h3 : i < d.length <;>
      simp [h1, h2, h3] <;> (intros; omega)

namespace Seg

@[simp] theorem setPixels_frame (g : Seg) (ps : List Pix) (v : Nat) :
    (g.setPixels ps v).frame = g.frame := rfl

@[simp] theorem setPixels_length (g : Seg) (ps : List Pix) (v : Nat) :
    (g.setPixels ps v).data.length = g.data.length := foldl_set_length_sg ps v g.data

theorem setPixels_getD (g : Seg) (ps : List Pix) (v : Nat) (i : Nat) :
    (g.setPixels ps v).data.getD i 0
      = if i ∈ ps ∧ i < g.data.length then v else g.data.getD i 0 :=
  foldl_set_getD_sg ps v g.data i

/-- two arrays are equal iff frame size, length and all cells agree -/
theorem ext_getD {g h : Seg} (hf : g.frame = h.frame) (hl : g.data.length = h.data.length)
    (hd : ∀ i, i < g.data.length → g.data.getD i 0 = h.data.getD i 0) : g = h := by
  cases g with | mk gf gd => cases h with | mk hf' hd' =>
  simp only at hf hl hd
  subst hf
  congr 1
  apply List.ext_getElem hl
  intro i h1 h2
  have := hd i h1
  simpa [List.getD_eq_getElem?_getD, h1, h2] using this

theorem mem_offsetsOf {g : Seg} {t l o : Nat} :
    o ∈ g.offsetsOf t l ↔ o < g.frame ∧ g.data.getD (t * g.frame + o) 0 = l := by
  simp [offsetsOf]

theorem mem_pixelsOf' {g : Seg} {t l p : Nat} :
    p ∈ g.pixelsOf t l ↔ ∃ o, o < g.frame ∧ g.data.getD (t * g.frame + o) 0 = l ∧ p = t * g.frame + o := by
  simp only [pixelsOf, List.mem_map, mem_offsetsOf]
  constructor
  · rintro ⟨o, ⟨h1, h2⟩, rfl⟩; exact ⟨o, h1, h2, rfl⟩
  · rintro ⟨o, h1, h2, rfl⟩; exact ⟨o, ⟨h1, h2⟩, rfl⟩

/-- `pixelsOf` specification: the flat indices of frame `t` that carry label `l` -/
theorem mem_pixelsOf {g : Seg} {t l p : Nat} :
    p ∈ g.pixelsOf t l ↔ 0 < g.frame ∧ p / g.frame = t ∧ g.data.getD p 0 = l := by
  rw [mem_pixelsOf']
  constructor
  · rintro ⟨o, h1, h2, rfl⟩
    have hpos : 0 < g.frame := Nat.lt_of_le_of_lt (Nat.zero_le _) h1
    refine ⟨hpos, ?_, h2⟩
    rw [Nat.mul_comm, Nat.mul_add_div hpos, Nat.div_eq_of_lt h1, Nat.add_zero]
  · rintro ⟨hpos, rfl, h2⟩
    refine ⟨p % g.frame, Nat.mod_lt _ hpos, ?_, ?_⟩
    · rw [Nat.mul_comm, Nat.div_add_mod]; exact h2
    · rw [Nat.mul_comm, Nat.div_add_mod]

theorem pixelsOf_ne_nil {g : Seg} {t l : Nat} :
    g.pixelsOf t l ≠ [] ↔ ∃ p, p / g.frame = t ∧ 0 < g.frame ∧ g.data.getD p 0 = l := by
  constructor
  · intro h
    obtain ⟨p, hp⟩ := List.exists_mem_of_ne_nil _ h
    rw [mem_pixelsOf] at hp
    exact ⟨p, hp.2.1, hp.1, hp.2.2⟩
  · rintro ⟨p, h1, h2, h3⟩ hnil
    have : p ∈ g.pixelsOf t l := mem_pixelsOf.mpr ⟨h2, h1, h3⟩
    rw [hnil] at this; cases this

/-- label `m` is neither written (`m ≠ v`) nor overwritten by `setPixels ps v` -/
def Untouched (g : Seg) (ps : List Pix) (v m : Nat) : Prop :=
  m ≠ v ∧ ∀ p ∈ ps, p < g.data.length → g.data.getD p 0 ≠ m

theorem offsetsOf_setPixels_other {g : Seg} {ps : List Pix} {v m : Nat} (h : Untouched g ps v m)
    (t : Nat) : (g.setPixels ps v).offsetsOf t m = g.offsetsOf t m := by
  simp only [offsetsOf, setPixels_frame]
  apply List.filter_congr
  intro o _
  rw [setPixels_getD]
  split
  · rename_i hc
    have h1 := h.2 _ hc.1 hc.2
    have h2 : ¬ v = m := fun e => h.1 e.symm
    rw [beq_eq_false_iff_ne.mpr h2, beq_eq_false_iff_ne.mpr h1]
  · rfl

theorem pixelsOf_setPixels_other {g : Seg} {ps : List Pix} {v m : Nat} (h : Untouched g ps v m)
    (t : Nat) : (g.setPixels ps v).pixelsOf t m = g.pixelsOf t m := by
  simp only [pixelsOf, offsetsOf_setPixels_other h, setPixels_frame]

instance (g : Seg) (ps : List Pix) (v m : Nat) : Decidable (Untouched g ps v m) := by
  unfold Untouched; infer_instance

/-- the regionprops snapshot of label `n` in frame `t` -/
def maskVal (g : Seg) (t n : Nat) : Val :=
  if g.pixelsOf t n = [] then Val.none else Val.mask (g.pixelsOf t n)

theorem maskVal_setPixels_other {g : Seg} {ps : List Pix} {v m : Nat} (h : Untouched g ps v m)
    (t : Nat) : (g.setPixels ps v).maskVal t m = g.maskVal t m := by
  simp only [maskVal, pixelsOf_setPixels_other h]

end Seg

/-! ### 2. association lists -/

theorem alook_aset_self_sg {β} (k : Nat) (v : β) (l : List (Nat × β)) :
    alook k (aset k v l) = some v := by
  induction l with
  | nil => simp [aset, alook]
  | cons kv r ih =>
    obtain ⟨k', v'⟩ := kv
    by_cases h : k' = k
    · simp [aset, alook, h]
    · simp [aset, alook, h, ih]

theorem alook_aset_ne_sg {β} {k k' : Nat} (h : k' ≠ k) (v : β) (l : List (Nat × β)) :
    alook k' (aset k v l) = alook k' l := by
  induction l with
  | nil => simp [aset, alook, Ne.symm h]
  | cons kv r ih =>
    obtain ⟨k'', v''⟩ := kv
    by_cases h2 : k'' = k
    · subst h2
      simp [aset, alook, Ne.symm h]
    · by_cases h3 : k'' = k'
      · subst h3
        simp [aset, alook, h2]
      · simp [aset, alook, h2, h3, ih]

namespace St

/-! ### 2b. skeleton of the node table: (id, time) in insertion order -/

def skel (s : St) : List (Node × Nat) := s.nodes.map (fun r => (r.id, r.time))

theorem timeOf_eq_skel_sg (s : St) (n : Node) :
    s.timeOf n = ((s.skel).find? (fun p => p.1 == n)).map (·.2) := by
  simp only [timeOf, findNode, skel]
  induction s.nodes with
  | nil => rfl
  | cons r rs ih =>
    simp only [List.find?_cons, List.map_cons]
    by_cases h : r.id == n
    · simp [h]
    · simp [h, ih]

theorem timeOf_of_skel_sg {s s' : St} (h : s'.skel = s.skel) (n : Node) : s'.timeOf n = s.timeOf n := by
  rw [timeOf_eq_skel_sg, timeOf_eq_skel_sg, h]

theorem hasNode_eq_timeOf_sg (s : St) (n : Node) : s.hasNode n = (s.timeOf n).isSome := by
  simp [hasNode, timeOf]

theorem hasNode_of_skel_sg {s s' : St} (h : s'.skel = s.skel) (n : Node) : s'.hasNode n = s.hasNode n := by
  rw [hasNode_eq_timeOf_sg, hasNode_eq_timeOf_sg, timeOf_of_skel_sg h]

theorem ids_eq_skel_sg (s : St) : s.ids = s.skel.map (·.1) := by
  simp [ids, skel]

theorem skel_updNode (s : St) (n : Node) (f : NodeRec → NodeRec)
    (hf : ∀ r, (f r).id = r.id ∧ (f r).time = r.time) : (s.updNode n f).skel = s.skel := by
  simp only [skel, updNode, List.map_map]
  apply List.map_congr_left
  intro r _
  simp only [Function.comp]
  split
  · rw [(hf r).1, (hf r).2]
  · rfl

theorem iouOf_congr' {s s' : St} (hs : s'.seg = s.seg) (hn : s'.skel = s.skel) (e : Edge) :
    s'.iouOf e = s.iouOf e := by
  simp only [iouOf, hs, timeOf_of_skel_sg hn]

theorem hasNode_iff_mem_ids_sg (s : St) (n : Node) : s.hasNode n = true ↔ n ∈ s.ids := by
  simp only [hasNode, findNode, ids, List.find?_isSome, List.mem_map]
  constructor
  · rintro ⟨r, hr, h⟩; exact ⟨r, hr, by simpa using h⟩
  · rintro ⟨r, hr, h⟩; exact ⟨r, hr, by simpa using h⟩

theorem find_of_mem_nodup_sg : ∀ (l : List NodeRec), (l.map (·.id)).Nodup → ∀ r ∈ l,
    l.find? (·.id == r.id) = some r := by
  intro l
  induction l with
  | nil => intro _ r hr; cases hr
  | cons a rs ih =>
    intro hnd r hr
    simp only [List.map_cons, List.nodup_cons, List.mem_map, not_exists, not_and] at hnd
    rcases List.mem_cons.mp hr with h | h
    · subst h; simp
    · have hne : ¬ a.id = r.id := fun e => hnd.1 r h e.symm
      simp only [List.find?_cons]
      have : (a.id == r.id) = false := by simpa using hne
      rw [this]
      exact ih hnd.2 r h

/-- with unique ids a record is found under its id -/
theorem findNode_of_mem_sg {s : St} (hnd : s.ids.Nodup) {r : NodeRec} (hr : r ∈ s.nodes) :
    s.findNode r.id = some r := find_of_mem_nodup_sg s.nodes hnd r hr

theorem timeOf_of_mem_sg {s : St} (hnd : s.ids.Nodup) {r : NodeRec} (hr : r ∈ s.nodes) :
    s.timeOf r.id = some r.time := by
  simp [timeOf, findNode_of_mem_sg hnd hr]

/-- with unique ids, two records with the same id are the same record -/
theorem rec_unique_sg {s : St} (hnd : s.ids.Nodup) {r r' : NodeRec} (hr : r ∈ s.nodes) (hr' : r' ∈ s.nodes)
    (h : r.id = r'.id) : r = r' := by
  have h1 := findNode_of_mem_sg hnd hr
  have h2 := findNode_of_mem_sg hnd hr'
  rw [h] at h1
  rw [h1] at h2
  exact Option.some.inj h2

/-! ### 2c. writing one value under several keys of one node (`rpUpdate`, `rpCompute`) -/

def asets (ks : List Key) (v : Val) (o : List (Key × Val)) : List (Key × Val) :=
  ks.foldl (fun o k => aset k v o) o

theorem alook_asets_mem {ks : List Key} {k : Key} (hk : k ∈ ks) (v : Val) (o : List (Key × Val)) :
    alook k (asets ks v o) = some v := by
  induction ks generalizing o with
  | nil => cases hk
  | cons a ks ih =>
    simp only [asets, List.foldl_cons]
    by_cases h : k ∈ ks
    · exact ih h _
    · have hka : k = a := by
        rcases List.mem_cons.mp hk with h1 | h1
        · exact h1
        · exact absurd h1 h
      subst hka
      have hnot : ∀ (ks : List Key) (o : List (Key × Val)), k ∉ ks →
          alook k (ks.foldl (fun o k => aset k v o) o) = alook k o := by
        intro ks
        induction ks with
        | nil => intro o _; rfl
        | cons b ks ih2 =>
          intro o hn
          simp only [List.mem_cons, not_or] at hn
          rw [List.foldl_cons, ih2 _ hn.2, alook_aset_ne_sg hn.1]
      rw [hnot ks _ h, alook_aset_self_sg]

theorem alook_asets_not_mem {ks : List Key} {k : Key} (hk : k ∉ ks) (v : Val) (o : List (Key × Val)) :
    alook k (asets ks v o) = alook k o := by
  induction ks generalizing o with
  | nil => rfl
  | cons b ks ih =>
    simp only [List.mem_cons, not_or] at hk
    simp only [asets, List.foldl_cons]
    have := ih hk.2 (aset b v o)
    simp only [asets] at this
    rw [this, alook_aset_ne_sg hk.1]

def setOthers (s : St) (n : Node) (ks : List Key) (v : Val) : St :=
  ks.foldl (fun st k => st.setOther n k v) s

theorem setOthers_eq (s : St) (n : Node) (ks : List Key) (v : Val) :
    s.setOthers n ks v = { s with nodes := s.nodes.map (fun r =>
      if r.id == n then { r with other := asets ks v r.other } else r) } := by
  induction ks generalizing s with
  | nil =>
    simp only [setOthers, asets, List.foldl_nil]
    have : s.nodes.map (fun r => if r.id == n then { r with other := r.other } else r) = s.nodes := by
      conv => rhs; rw [← List.map_id s.nodes]
      apply List.map_congr_left
      intro r _; split <;> rfl
    rw [this]
  | cons k ks ih =>
    simp only [setOthers, List.foldl_cons] at ih ⊢
    rw [ih]
    simp only [setOther, updNode, List.map_map]
    congr 1
    apply List.map_congr_left
    intro r _
    simp only [Function.comp]
    by_cases h : r.id == n
    · simp [h, asets]
    · simp [h]

theorem rpUpdate_eq (s : St) (n : Node) :
    s.rpUpdate n = match s.seg, s.timeOf n with
      | some g, some t =>
        if s.rpActive.isEmpty then s else
        s.setOthers n s.rpActive (if (g.pixelsOf t n).isEmpty then Val.none else Val.mask (g.pixelsOf t n))
      | _, _ => s := rfl

theorem setOthers_seg (s : St) (n ks v) : (s.setOthers n ks v).seg = s.seg := by rw [setOthers_eq]
theorem setOthers_edges (s : St) (n ks v) : (s.setOthers n ks v).edges = s.edges := by rw [setOthers_eq]
theorem setOthers_rpActive (s : St) (n ks v) : (s.setOthers n ks v).rpActive = s.rpActive := by rw [setOthers_eq]
theorem setOthers_iouKey (s : St) (n ks v) : (s.setOthers n ks v).iouKey = s.iouKey := by rw [setOthers_eq]
theorem setOthers_iouActive (s : St) (n ks v) : (s.setOthers n ks v).iouActive = s.iouActive := by rw [setOthers_eq]
theorem setOthers_skel (s : St) (n ks v) : (s.setOthers n ks v).skel = s.skel := by
  rw [setOthers_eq]
  simp only [skel, List.map_map]
  apply List.map_congr_left
  intro r _
  simp only [Function.comp]
  split <;> rfl

theorem rpUpdate_seg (s : St) (n : Node) : (s.rpUpdate n).seg = s.seg := by
  rw [rpUpdate_eq]; split <;> (try split) <;> first | rfl | exact setOthers_seg ..
theorem rpUpdate_edges (s : St) (n : Node) : (s.rpUpdate n).edges = s.edges := by
  rw [rpUpdate_eq]; split <;> (try split) <;> first | rfl | exact setOthers_edges ..
theorem rpUpdate_rpActive (s : St) (n : Node) : (s.rpUpdate n).rpActive = s.rpActive := by
  rw [rpUpdate_eq]; split <;> (try split) <;> first | rfl | exact setOthers_rpActive ..
theorem rpUpdate_iouKey (s : St) (n : Node) : (s.rpUpdate n).iouKey = s.iouKey := by
  rw [rpUpdate_eq]; split <;> (try split) <;> first | rfl | exact setOthers_iouKey ..
theorem rpUpdate_iouActive (s : St) (n : Node) : (s.rpUpdate n).iouActive = s.iouActive := by
  rw [rpUpdate_eq]; split <;> (try split) <;> first | rfl | exact setOthers_iouActive ..
theorem rpUpdate_skel (s : St) (n : Node) : (s.rpUpdate n).skel = s.skel := by
  rw [rpUpdate_eq]; split <;> (try split) <;> first | rfl | exact setOthers_skel ..

theorem mem_setOthers {s : St} {n : Node} {ks : List Key} {v : Val} {r : NodeRec} :
    r ∈ (s.setOthers n ks v).nodes ↔
      ∃ r0 ∈ s.nodes, r = if r0.id == n then { r0 with other := asets ks v r0.other } else r0 := by
  rw [setOthers_eq]
  simp only [List.mem_map]
  constructor
  · rintro ⟨r0, h0, rfl⟩; exact ⟨r0, h0, rfl⟩
  · rintro ⟨r0, h0, rfl⟩; exact ⟨r0, h0, rfl⟩

theorem rpUpdate_ids (s : St) (n : Node) : (s.rpUpdate n).ids = s.ids := by
  rw [ids_eq_skel_sg, ids_eq_skel_sg, rpUpdate_skel]

/-- C08 node clause of `MeasOK` -/
def RpOK (s : St) : Prop :=
  ∀ g, s.seg = some g → ∀ k ∈ s.rpActive, ∀ r ∈ s.nodes,
    alook k r.other = some (g.maskVal r.time r.id)

/-- C09 edge clause of `MeasOK` -/
def IouOK (s : St) : Prop :=
  ∀ g, s.seg = some g → s.iouActive = true → ∀ k, s.iouKey = some k →
    ∀ er ∈ s.edges, alook k er.attrs = some (s.iouOf er.e)

theorem measOK_iff_sg (s : St) : MeasOK s ↔ RpOK s ∧ IouOK s := by
  simp only [MeasOK, RpOK, IouOK, Seg.maskVal]
  constructor
  · intro h; exact ⟨fun g hg => (h g hg).1, fun g hg => (h g hg).2⟩
  · intro h g hg; exact ⟨h.1 g hg, h.2 g hg⟩

theorem rpOK_congr {s s' : St} (hs : s'.seg = s.seg) (hn : s'.nodes = s.nodes)
    (ha : s'.rpActive = s.rpActive) (h : RpOK s) : RpOK s' := by
  intro g hg k hk r hr
  rw [hs] at hg; rw [ha] at hk; rw [hn] at hr
  exact h g hg k hk r hr

/-- what `rpUpdate n` does: the records of `n` get every active key rewritten with the snapshot
    of the current array; nothing else changes -/
theorem rpUpdate_spec (s : St) (n : Node) (g : Seg) (hg : s.seg = some g) (hnd : s.ids.Nodup) :
    (∀ r ∈ (s.rpUpdate n).nodes, r.id = n → ∀ k ∈ s.rpActive,
        alook k r.other = some (g.maskVal r.time n)) ∧
    (∀ r ∈ (s.rpUpdate n).nodes, r.id ≠ n → r ∈ s.nodes) ∧
    (∀ r ∈ (s.rpUpdate n).nodes, r.id = n → ∀ k, k ∉ s.rpActive →
        ∃ r0 ∈ s.nodes, r0.id = n ∧ alook k r.other = alook k r0.other) := by
  rw [rpUpdate_eq, hg]
  cases ht : s.timeOf n with
  | none =>
    have hno : ∀ r ∈ s.nodes, r.id ≠ n := by
      intro r hr he
      have := timeOf_of_mem_sg hnd hr
      rw [he, ht] at this; cases this
    refine ⟨fun r hr he => absurd he (hno r hr), fun r hr _ => hr, fun r hr he => absurd he (hno r hr)⟩
  | some t =>
    simp only
    by_cases hemp : s.rpActive.isEmpty = true
    · simp only [hemp, if_true]
      have : s.rpActive = [] := by simpa using hemp
      refine ⟨fun r _ _ k hk => (by rw [this] at hk; cases hk), fun r hr _ => hr,
        fun r hr he k _ => ⟨r, hr, he, rfl⟩⟩
    · simp only [hemp]
      refine ⟨?_, ?_, ?_⟩
      · intro r hr he k hk
        obtain ⟨r0, h0, rfl⟩ := mem_setOthers.mp hr
        by_cases h : r0.id = n
        · have ht0 : r0.time = t := by
            have := timeOf_of_mem_sg hnd h0
            rw [h, ht] at this; exact (Option.some.inj this).symm
          simp only [h, beq_self_eq_true, if_true] at he ⊢
          rw [alook_asets_mem hk, ht0]
          simp only [Seg.maskVal, List.isEmpty_iff]
        · have hb : (r0.id == n) = false := by simpa using h
          simp only [hb] at he
          exact absurd he h
      · intro r hr hne
        obtain ⟨r0, h0, rfl⟩ := mem_setOthers.mp hr
        by_cases h : r0.id = n
        · simp [h] at hne
        · have hb : (r0.id == n) = false := by simpa using h
          simpa [hb] using h0
      · intro r hr he k hk
        obtain ⟨r0, h0, rfl⟩ := mem_setOthers.mp hr
        by_cases h : r0.id = n
        · refine ⟨r0, h0, h, ?_⟩
          simp only [h, beq_self_eq_true, if_true]
          exact alook_asets_not_mem hk _ _
        · have hb : (r0.id == n) = false := by simpa using h
          simp only [hb] at he
          exact absurd he h

/-- if all nodes other than `n` are current, `rpUpdate n` makes the whole table current -/
theorem rpOK_rpUpdate {s : St} {n : Node} (hnd : s.ids.Nodup)
    (hoth : ∀ g, s.seg = some g → ∀ k ∈ s.rpActive, ∀ r ∈ s.nodes, r.id ≠ n →
      alook k r.other = some (g.maskVal r.time r.id)) : RpOK (s.rpUpdate n) := by
  intro g hg k hk r hr
  rw [rpUpdate_seg] at hg
  rw [rpUpdate_rpActive] at hk
  obtain ⟨h1, h2, -⟩ := rpUpdate_spec s n g hg hnd
  by_cases he : r.id = n
  · rw [h1 r hr he k hk, he]
  · exact hoth g hg k hk r (h2 r hr he) he

/-! ### 3. IoU -/

@[simp] theorem iouOf_setEdgeAttr (s : St) (e : Edge) (k : Key) (v : Val) (e' : Edge) :
    (s.setEdgeAttr e k v).iouOf e' = s.iouOf e' := rfl

theorem iouUpdateEdge_seg (s : St) (e : Edge) : (s.iouUpdateEdge e).seg = s.seg := by
  unfold iouUpdateEdge; split <;> (try split) <;> rfl
theorem iouUpdateEdge_nodes (s : St) (e : Edge) : (s.iouUpdateEdge e).nodes = s.nodes := by
  unfold iouUpdateEdge; split <;> (try split) <;> rfl
theorem iouUpdateEdge_iouKey (s : St) (e : Edge) : (s.iouUpdateEdge e).iouKey = s.iouKey := by
  unfold iouUpdateEdge; split <;> (try split) <;> rfl
theorem iouUpdateEdge_iouActive (s : St) (e : Edge) : (s.iouUpdateEdge e).iouActive = s.iouActive := by
  unfold iouUpdateEdge; split <;> (try split) <;> rfl
theorem iouUpdateEdge_rpActive (s : St) (e : Edge) : (s.iouUpdateEdge e).rpActive = s.rpActive := by
  unfold iouUpdateEdge; split <;> (try split) <;> rfl

theorem iouOf_congr_sg {s s' : St} (hs : s'.seg = s.seg) (hn : s'.nodes = s.nodes) (e : Edge) :
    s'.iouOf e = s.iouOf e := by
  simp only [iouOf, timeOf, findNode, hs, hn]

theorem iouOf_iouUpdateEdge (s : St) (e e' : Edge) : (s.iouUpdateEdge e).iouOf e' = s.iouOf e' :=
  iouOf_congr_sg (iouUpdateEdge_seg s e) (iouUpdateEdge_nodes s e) e'

/-- the effect of one incremental IoU update when the feature is on -/
theorem iouUpdateEdge_on {s : St} {k : Key} (hk : s.iouKey = some k) (ha : s.iouActive = true)
    (hs : s.seg.isSome = true) (e : Edge) :
    s.iouUpdateEdge e = s.setEdgeAttr e k (s.iouOf e) := by
  simp [iouUpdateEdge, hk, ha, hs]

theorem iouUpdateEdge_edgeList (s : St) (e : Edge) :
    (s.iouUpdateEdge e).edges.map (·.e) = s.edges.map (·.e) := by
  unfold iouUpdateEdge
  split
  · split
    · simp only [setEdgeAttr, List.map_map]
      apply List.map_congr_left
      intro r _
      simp only [Function.comp]
      split <;> rfl
    · rfl
  · rfl

/-- records whose edge is not `e` are untouched by the update of `e` -/
theorem mem_iouUpdateEdge_ne {s : St} {e : Edge} {er : EdgeRec}
    (h : er ∈ (s.iouUpdateEdge e).edges) (hne : er.e ≠ e) : er ∈ s.edges := by
  unfold iouUpdateEdge at h
  split at h
  · split at h
    · simp only [setEdgeAttr, List.mem_map] at h
      obtain ⟨r, hr, rfl⟩ := h
      by_cases hre : r.e = e
      · simp [hre] at hne
      · simpa [hre] using hr
    · exact h
  · exact h

/-- records of edge `e` carry the current value after the update of `e` -/
theorem mem_iouUpdateEdge_eq {s : St} {k : Key} (hk : s.iouKey = some k) (ha : s.iouActive = true)
    (hs : s.seg.isSome = true) {e : Edge} {er : EdgeRec}
    (h : er ∈ (s.iouUpdateEdge e).edges) (he : er.e = e) :
    alook k er.attrs = some (s.iouOf e) := by
  rw [iouUpdateEdge_on hk ha hs] at h
  simp only [setEdgeAttr, List.mem_map] at h
  obtain ⟨r, hr, rfl⟩ := h
  by_cases hre : r.e = e
  · simp [hre, alook_aset_self_sg]
  · simp [hre] at he

theorem iouUpdateEdge_skel (s : St) (e : Edge) : (s.iouUpdateEdge e).skel = s.skel := by
  simp only [skel, iouUpdateEdge_nodes]

theorem foldl_iouUpdateEdge_seg (es : List Edge) (s : St) :
    (es.foldl iouUpdateEdge s).seg = s.seg := by
  induction es generalizing s with
  | nil => rfl
  | cons e es ih => rw [List.foldl_cons, ih, iouUpdateEdge_seg]
theorem foldl_iouUpdateEdge_nodes (es : List Edge) (s : St) :
    (es.foldl iouUpdateEdge s).nodes = s.nodes := by
  induction es generalizing s with
  | nil => rfl
  | cons e es ih => rw [List.foldl_cons, ih, iouUpdateEdge_nodes]
theorem foldl_iouUpdateEdge_iouKey (es : List Edge) (s : St) :
    (es.foldl iouUpdateEdge s).iouKey = s.iouKey := by
  induction es generalizing s with
  | nil => rfl
  | cons e es ih => rw [List.foldl_cons, ih, iouUpdateEdge_iouKey]
theorem foldl_iouUpdateEdge_iouActive (es : List Edge) (s : St) :
    (es.foldl iouUpdateEdge s).iouActive = s.iouActive := by
  induction es generalizing s with
  | nil => rfl
  | cons e es ih => rw [List.foldl_cons, ih, iouUpdateEdge_iouActive]
theorem foldl_iouUpdateEdge_rpActive (es : List Edge) (s : St) :
    (es.foldl iouUpdateEdge s).rpActive = s.rpActive := by
  induction es generalizing s with
  | nil => rfl
  | cons e es ih => rw [List.foldl_cons, ih, iouUpdateEdge_rpActive]
theorem foldl_iouUpdateEdge_edgeList (es : List Edge) (s : St) :
    (es.foldl iouUpdateEdge s).edges.map (·.e) = s.edges.map (·.e) := by
  induction es generalizing s with
  | nil => rfl
  | cons e es ih => rw [List.foldl_cons, ih, iouUpdateEdge_edgeList]

theorem iouOf_foldl_iouUpdateEdge (es : List Edge) (s : St) (e' : Edge) :
    (es.foldl iouUpdateEdge s).iouOf e' = s.iouOf e' :=
  iouOf_congr_sg (foldl_iouUpdateEdge_seg es s) (foldl_iouUpdateEdge_nodes es s) e'

theorem mem_foldl_iouUpdateEdge_notin (es : List Edge) (s : St) {er : EdgeRec}
    (h : er ∈ (es.foldl iouUpdateEdge s).edges) (hne : er.e ∉ es) : er ∈ s.edges := by
  induction es generalizing s with
  | nil => exact h
  | cons e es ih =>
    rw [List.foldl_cons] at h
    simp only [List.mem_cons, not_or] at hne
    exact mem_iouUpdateEdge_ne (ih _ h hne.2) hne.1

/-- after a run of incremental updates every record of an updated edge carries `iouOf` -/
theorem mem_foldl_iouUpdateEdge_in (es : List Edge) (s : St) {k : Key} (hk : s.iouKey = some k)
    (ha : s.iouActive = true) (hs : s.seg.isSome = true) {er : EdgeRec}
    (h : er ∈ (es.foldl iouUpdateEdge s).edges) (hin : er.e ∈ es) :
    alook k er.attrs = some (s.iouOf er.e) := by
  induction es generalizing s with
  | nil => cases hin
  | cons e es ih =>
    rw [List.foldl_cons] at h
    by_cases hes : er.e ∈ es
    · have := ih (s.iouUpdateEdge e) (by rw [iouUpdateEdge_iouKey, hk])
        (by rw [iouUpdateEdge_iouActive, ha]) (by rw [iouUpdateEdge_seg, hs]) h hes
      rw [this, iouOf_iouUpdateEdge]
    · have he : er.e = e := by
        rcases List.mem_cons.mp hin with h1 | h1
        · exact h1
        · exact absurd h1 hes
      have hmem := mem_foldl_iouUpdateEdge_notin es _ h hes
      rw [he]
      exact mem_iouUpdateEdge_eq hk ha hs hmem he

theorem foldl_iouUpdateEdge_skel (es : List Edge) (s : St) :
    (es.foldl iouUpdateEdge s).skel = s.skel := by
  simp only [skel, foldl_iouUpdateEdge_nodes]

def incident (s : St) (n : Node) : List Edge :=
  (s.edges.filter (·.e.2 == n)).map (·.e) ++ (s.edges.filter (·.e.1 == n)).map (·.e)

theorem iouUpdateNode_eq (s : St) (n : Node) :
    s.iouUpdateNode n = (s.incident n).foldl iouUpdateEdge s := rfl

theorem iouUpdateNode_seg (s : St) (n : Node) : (s.iouUpdateNode n).seg = s.seg :=
  foldl_iouUpdateEdge_seg _ _
theorem iouUpdateNode_nodes (s : St) (n : Node) : (s.iouUpdateNode n).nodes = s.nodes :=
  foldl_iouUpdateEdge_nodes _ _
theorem iouUpdateNode_skel (s : St) (n : Node) : (s.iouUpdateNode n).skel = s.skel :=
  foldl_iouUpdateEdge_skel _ _
theorem iouUpdateNode_rpActive (s : St) (n : Node) : (s.iouUpdateNode n).rpActive = s.rpActive :=
  foldl_iouUpdateEdge_rpActive _ _
theorem iouUpdateNode_iouKey (s : St) (n : Node) : (s.iouUpdateNode n).iouKey = s.iouKey :=
  foldl_iouUpdateEdge_iouKey _ _
theorem iouUpdateNode_iouActive (s : St) (n : Node) : (s.iouUpdateNode n).iouActive = s.iouActive :=
  foldl_iouUpdateEdge_iouActive _ _
theorem iouUpdateNode_edgeList (s : St) (n : Node) :
    (s.iouUpdateNode n).edges.map (·.e) = s.edges.map (·.e) :=
  foldl_iouUpdateEdge_edgeList _ _
theorem iouOf_iouUpdateNode (s : St) (n : Node) (e : Edge) : (s.iouUpdateNode n).iouOf e = s.iouOf e :=
  iouOf_foldl_iouUpdateEdge _ _ _

theorem mem_incident {s : St} {n : Node} {e : Edge} (he : e ∈ s.edges.map (·.e))
    (hinc : e.1 = n ∨ e.2 = n) : e ∈ s.incident n := by
  obtain ⟨r, hr, hre⟩ := List.mem_map.mp he
  simp only [incident, List.mem_append, List.mem_map, List.mem_filter]
  rcases hinc with h1 | h2
  · right; exact ⟨r, ⟨hr, by simp [hre, h1]⟩, hre⟩
  · left; exact ⟨r, ⟨hr, by simp [hre, h2]⟩, hre⟩

theorem not_mem_incident {s : St} {n : Node} {e : Edge} (h1 : e.1 ≠ n) (h2 : e.2 ≠ n) :
    e ∉ s.incident n := by
  simp only [incident, List.mem_append, List.mem_map, List.mem_filter, not_or, not_exists, not_and]
  constructor
  · rintro r ⟨-, hr⟩ rfl; exact h2 (by simpa using hr)
  · rintro r ⟨-, hr⟩ rfl; exact h1 (by simpa using hr)

/-- after `iouUpdateNode n` every record of an edge incident to `n` is current -/
theorem mem_iouUpdateNode_incident {s : St} {n : Node} {k : Key} (hk : s.iouKey = some k)
    (ha : s.iouActive = true) (hs : s.seg.isSome = true) {er : EdgeRec}
    (her : er ∈ (s.iouUpdateNode n).edges) (hinc : er.e.1 = n ∨ er.e.2 = n) :
    alook k er.attrs = some (s.iouOf er.e) := by
  rw [iouUpdateNode_eq] at her
  refine mem_foldl_iouUpdateEdge_in _ _ hk ha hs her (mem_incident ?_ hinc)
  have : er.e ∈ (List.foldl iouUpdateEdge s (s.incident n)).edges.map (·.e) :=
    List.mem_map.mpr ⟨er, her, rfl⟩
  rwa [foldl_iouUpdateEdge_edgeList] at this

/-- records of edges not incident to `n` are untouched by `iouUpdateNode n` -/
theorem mem_iouUpdateNode_other {s : St} {n : Node} {er : EdgeRec}
    (her : er ∈ (s.iouUpdateNode n).edges) (h1 : er.e.1 ≠ n) (h2 : er.e.2 ≠ n) : er ∈ s.edges := by
  rw [iouUpdateNode_eq] at her
  exact mem_foldl_iouUpdateEdge_notin _ _ her (not_mem_incident h1 h2)

/-! ### 5. frame of the relabel walk and of the bookkeeping -/

def core (r : NodeRec) : Node × Nat × List (Key × Val) := (r.id, r.time, r.other)

/-- what `walk`, `trackOnAdd`, `trackOnDelete`, `trackNeighbors` leave alone -/
structure Fr (s s' : St) : Prop where
  seg : s'.seg = s.seg
  cores : s'.nodes.map core = s.nodes.map core
  edges : s'.edges = s.edges
  rpActive : s'.rpActive = s.rpActive
  rpAvail : s'.rpAvail = s.rpAvail
  iouKey : s'.iouKey = s.iouKey
  iouActive : s'.iouActive = s.iouActive

theorem Fr.refl (s : St) : Fr s s := ⟨rfl, rfl, rfl, rfl, rfl, rfl, rfl⟩
theorem Fr.trans {a b c : St} (h1 : Fr a b) (h2 : Fr b c) : Fr a c :=
  ⟨h2.seg.trans h1.seg, h2.cores.trans h1.cores, h2.edges.trans h1.edges,
   h2.rpActive.trans h1.rpActive, h2.rpAvail.trans h1.rpAvail, h2.iouKey.trans h1.iouKey,
   h2.iouActive.trans h1.iouActive⟩

theorem Fr.skel {s s' : St} (h : Fr s s') : s'.skel = s.skel := by
  have := congrArg (List.map (fun c : Node × Nat × List (Key × Val) => (c.1, c.2.1))) h.cores
  rw [List.map_map, List.map_map] at this
  exact this

theorem Fr.mem {s s' : St} (h : Fr s s') {r' : NodeRec} (hr : r' ∈ s'.nodes) :
    ∃ r ∈ s.nodes, core r = core r' := by
  have : core r' ∈ s'.nodes.map core := List.mem_map.mpr ⟨r', hr, rfl⟩
  rw [h.cores] at this
  obtain ⟨r, hr, he⟩ := List.mem_map.mp this
  exact ⟨r, hr, he⟩

theorem Fr.updNode (s : St) (n : Node) (f : NodeRec → NodeRec) (hf : ∀ r, core (f r) = core r) :
    Fr s (s.updNode n f) := by
  refine ⟨rfl, ?_, rfl, rfl, rfl, rfl, rfl⟩
  simp only [St.updNode, List.map_map]
  apply List.map_congr_left
  intro r _
  simp only [Function.comp]
  split
  · exact hf r
  · rfl

theorem Fr.setTid (s : St) (n : Node) (t : Nat) : Fr s (s.setTid n t) := Fr.updNode s n _ (fun _ => rfl)
theorem Fr.setLin (s : St) (n : Node) (l : Option Nat) : Fr s (s.setLin n l) := Fr.updNode s n _ (fun _ => rfl)

theorem Fr.walkNode (old new : Nat) (newLin : Option Nat) (updLin : Bool) (a : WalkAcc) (n : Node) :
    Fr a.s (St.walkNode old new newLin updLin a n).s := by
  unfold St.walkNode
  have h1 : Fr a.s (if updLin then a.s.setLin n newLin else a.s) := by
    split
    · exact Fr.setLin _ _ _
    · exact Fr.refl _
  generalize (if updLin then a.s.setLin n newLin else a.s) = s1 at h1
  simp only
  split
  · split
    · exact h1.trans (Fr.setTid _ _ _)
    · exact h1
  · exact h1

theorem Fr.foldl_walkNode (old new : Nat) (newLin : Option Nat) (updLin : Bool) (l : List Node)
    (a : WalkAcc) : Fr a.s (l.foldl (St.walkNode old new newLin updLin) a).s := by
  induction l generalizing a with
  | nil => exact Fr.refl _
  | cons n l ih => exact (Fr.walkNode old new newLin updLin a n).trans (ih _)

theorem Fr.walkLevels (old new : Nat) (newLin : Option Nat) (updLin : Bool) (fuel : Nat)
    (a : WalkAcc) : Fr a.s (St.walkLevels old new newLin updLin fuel a).s := by
  induction fuel generalizing a with
  | zero => exact Fr.refl _
  | succ f ih =>
    unfold St.walkLevels
    split
    · exact Fr.refl _
    · exact (Fr.foldl_walkNode old new newLin updLin _ { a with next := [] }).trans (ih _)

theorem Fr.bookMoveT (s : St) (ns : List Node) (o n : Nat) : Fr s (s.bookMoveT ns o n) :=
  ⟨rfl, rfl, rfl, rfl, rfl, rfl, rfl⟩
theorem Fr.bookMoveL (s : St) (ns : List Node) (o : Option Nat) (n : Nat) : Fr s (s.bookMoveL ns o n) := by
  cases o <;> exact ⟨rfl, rfl, rfl, rfl, rfl, rfl, rfl⟩

theorem Fr.walk (s : St) (start : Node) (oldT newT : Nat) (oldL newL : Option Nat) :
    Fr s (s.walk start oldT newT oldL newL) := by
  unfold St.walk
  simp only
  have h1 := Fr.walkLevels oldT newT newL (newL.isSome && s.linOn) (s.nodes.length + 1)
    { s := s, flag := true, tNodes := [], lNodes := [], next := [start] }
  generalize St.walkLevels oldT newT newL (newL.isSome && s.linOn) (s.nodes.length + 1)
    { s := s, flag := true, tNodes := [], lNodes := [], next := [start] } = a at h1
  have h2 := h1.trans (Fr.bookMoveT a.s a.tNodes oldT newT)
  split
  · exact h2.trans (Fr.bookMoveL _ _ _ _)
  · exact h2

theorem Fr.trackOnAdd (s : St) (r : NodeRec) : Fr s (s.trackOnAdd r) := by
  unfold St.trackOnAdd; split <;> exact ⟨rfl, rfl, rfl, rfl, rfl, rfl, rfl⟩
theorem Fr.trackOnDelete (s : St) (r : NodeRec) : Fr s (s.trackOnDelete r) := by
  unfold St.trackOnDelete; split <;> exact ⟨rfl, rfl, rfl, rfl, rfl, rfl, rfl⟩
theorem Fr.trackNeighbors (s : St) (tid time : Nat) : Fr s (s.trackNeighbors tid time).1 := by
  unfold St.trackNeighbors; split <;> exact ⟨rfl, rfl, rfl, rfl, rfl, rfl, rfl⟩

theorem Fr.ids {s s' : St} (h : Fr s s') : s'.ids = s.ids := by
  rw [ids_eq_skel_sg, ids_eq_skel_sg, h.skel]

theorem Fr.rpOK {s s' : St} (h : Fr s s') (hr : RpOK s) : RpOK s' := by
  intro g hg k hk r' hr'
  rw [h.seg] at hg; rw [h.rpActive] at hk
  obtain ⟨r, hrm, hc⟩ := h.mem hr'
  have := hr g hg k hk r hrm
  simp only [core, Prod.mk.injEq] at hc
  rw [← hc.1, ← hc.2.1, ← hc.2.2]; exact this

theorem Fr.iouOK {s s' : St} (h : Fr s s') (hi : IouOK s) : IouOK s' := by
  intro g hg ha k hk er her
  rw [h.seg] at hg; rw [h.iouActive] at ha; rw [h.iouKey] at hk; rw [h.edges] at her
  rw [iouOf_congr' h.seg h.skel]
  exact hi g hg ha k hk er her

theorem Fr.segOK {s s' : St} (h : Fr s s') (hs : SegOK s) : SegOK s' := by
  intro g hg
  rw [h.seg] at hg
  obtain ⟨h1, h2⟩ := hs g hg
  refine ⟨?_, ?_⟩
  · intro r' hr'
    obtain ⟨r, hrm, hc⟩ := h.mem hr'
    simp only [core, Prod.mk.injEq] at hc
    rw [← hc.1, ← hc.2.1]; exact h1 r hrm
  · intro i hi hne
    obtain ⟨r, hrm, h3, h4⟩ := h2 i hi hne
    have : core r ∈ s'.nodes.map core := by rw [h.cores]; exact List.mem_map.mpr ⟨r, hrm, rfl⟩
    obtain ⟨r', hr', hc⟩ := List.mem_map.mp this
    simp only [core, Prod.mk.injEq] at hc
    exact ⟨r', hr', by rw [hc.1]; exact h3, by rw [hc.2.1]; exact h4⟩

/-! ### 4. the primitives in manageable form -/

def withSeg (s : St) (g : Seg) : St := { s with seg := some g }

@[simp] theorem withSeg_seg (s : St) (g : Seg) : (s.withSeg g).seg = some g := rfl
@[simp] theorem withSeg_nodes (s : St) (g : Seg) : (s.withSeg g).nodes = s.nodes := rfl
@[simp] theorem withSeg_edges (s : St) (g : Seg) : (s.withSeg g).edges = s.edges := rfl
@[simp] theorem withSeg_skel (s : St) (g : Seg) : (s.withSeg g).skel = s.skel := rfl
@[simp] theorem withSeg_rpActive (s : St) (g : Seg) : (s.withSeg g).rpActive = s.rpActive := rfl
@[simp] theorem withSeg_iouKey (s : St) (g : Seg) : (s.withSeg g).iouKey = s.iouKey := rfl
@[simp] theorem withSeg_iouActive (s : St) (g : Seg) : (s.withSeg g).iouActive = s.iouActive := rfl

theorem pUpdSeg_ok_sg {s s' : St} {n : Node} {px : List Pix} {added : Bool} {rec : PrimRec}
    (h : s.pUpdSeg n px added = .ok (s', rec)) :
    ∃ g, s.seg = some g ∧ s.hasNode n = true ∧ rec = .updSeg n px added ∧
      s' = ((s.withSeg (g.setPixels px (if added then n else 0))).rpUpdate n).iouUpdateNode n := by
  unfold pUpdSeg at h
  split at h
  · cases h
  · rename_i g hg
    split at h
    · cases h
    · rename_i hn
      simp only [Except.ok.injEq, Prod.mk.injEq] at h
      exact ⟨g, hg, by simpa using hn, h.2.symm, h.1.symm⟩

/-- the graph part of AddEdge (before the annotator is notified) -/
def addEdgeRaw (s : St) (e : Edge) (attrs : List (Key × Val)) : St :=
  if s.hasEdge e then
    { s with edges := s.edges.map (fun (r : EdgeRec) => if r.e == e then
        { r with attrs := amerge attrs r.attrs } else r) }
  else { s with edges := s.edges ++ [{ e := e, attrs := attrs }] }

theorem addEdgeRaw_seg (s : St) (e attrs) : (s.addEdgeRaw e attrs).seg = s.seg := by
  unfold addEdgeRaw; split <;> rfl
theorem addEdgeRaw_nodes (s : St) (e attrs) : (s.addEdgeRaw e attrs).nodes = s.nodes := by
  unfold addEdgeRaw; split <;> rfl
theorem addEdgeRaw_iouKey (s : St) (e attrs) : (s.addEdgeRaw e attrs).iouKey = s.iouKey := by
  unfold addEdgeRaw; split <;> rfl
theorem addEdgeRaw_iouActive (s : St) (e attrs) : (s.addEdgeRaw e attrs).iouActive = s.iouActive := by
  unfold addEdgeRaw; split <;> rfl
theorem addEdgeRaw_rpActive (s : St) (e attrs) : (s.addEdgeRaw e attrs).rpActive = s.rpActive := by
  unfold addEdgeRaw; split <;> rfl

theorem addEdgeRaw_has (s : St) (e attrs) : ∃ er ∈ (s.addEdgeRaw e attrs).edges, er.e = e := by
  unfold addEdgeRaw
  split
  · rename_i he
    simp only [hasEdge, List.any_eq_true] at he
    obtain ⟨r, hr, hre⟩ := he
    have hre' : r.e = e := by simpa using hre
    refine ⟨{ r with attrs := amerge attrs r.attrs }, ?_, hre'⟩
    simp only [List.mem_map]
    exact ⟨r, hr, by simp [hre']⟩
  · exact ⟨{ e := e, attrs := attrs }, by simp, rfl⟩

theorem addEdgeRaw_ne {s : St} {e attrs} {er : EdgeRec} (h : er ∈ (s.addEdgeRaw e attrs).edges)
    (hne : er.e ≠ e) : er ∈ s.edges := by
  unfold addEdgeRaw at h
  split at h
  · simp only [List.mem_map] at h
    obtain ⟨r, hr, rfl⟩ := h
    by_cases hre : r.e = e
    · simp [hre] at hne
    · simpa [hre] using hr
  · simp only [List.mem_append, List.mem_singleton] at h
    rcases h with h | h
    · exact h
    · subst h; exact absurd rfl hne

theorem pAddEdge_ok_sg {s s' : St} {e : Edge} {attrs : List (Key × Val)} {rec : PrimRec}
    (h : s.pAddEdge e attrs = .ok (s', rec)) :
    s.hasNode e.1 = true ∧ s.hasNode e.2 = true ∧ rec = .addEdge e attrs ∧
      s' = (s.addEdgeRaw e attrs).iouUpdateEdge e := by
  unfold pAddEdge at h
  split at h
  · cases h
  · rename_i hn
    simp only [Except.ok.injEq, Prod.mk.injEq] at h
    simp only [Bool.or_eq_true, Bool.not_eq_true', not_or, Bool.not_eq_false] at hn
    exact ⟨hn.1, hn.2, h.2.symm, h.1.symm⟩

/-- the array write of AddNode / DeleteNode (nothing without pixels or without array) -/
def paintWith (s : St) (pixels : Option (List Pix)) (v : Nat) : St :=
  match pixels, s.seg with
  | some ps, some g => s.withSeg (g.setPixels ps v)
  | _, _ => s

theorem paintWith_cases (s : St) (pixels : Option (List Pix)) (v : Nat) :
    (∃ ps g, pixels = some ps ∧ s.seg = some g ∧ s.paintWith pixels v = s.withSeg (g.setPixels ps v)) ∨
    ((pixels = none ∨ s.seg = none) ∧ s.paintWith pixels v = s) := by
  unfold paintWith
  cases pixels with
  | none => right; exact ⟨Or.inl rfl, rfl⟩
  | some ps =>
    cases hg : s.seg with
    | none => right; exact ⟨Or.inr rfl, rfl⟩
    | some g => left; exact ⟨ps, g, rfl, rfl, rfl⟩

@[simp] theorem paintWith_nodes (s : St) (px v) : (s.paintWith px v).nodes = s.nodes := by
  unfold paintWith; split <;> rfl
@[simp] theorem paintWith_edges (s : St) (px v) : (s.paintWith px v).edges = s.edges := by
  unfold paintWith; split <;> rfl
@[simp] theorem paintWith_rpActive (s : St) (px v) : (s.paintWith px v).rpActive = s.rpActive := by
  unfold paintWith; split <;> rfl
@[simp] theorem paintWith_iouKey (s : St) (px v) : (s.paintWith px v).iouKey = s.iouKey := by
  unfold paintWith; split <;> rfl
@[simp] theorem paintWith_iouActive (s : St) (px v) : (s.paintWith px v).iouActive = s.iouActive := by
  unfold paintWith; split <;> rfl
@[simp] theorem paintWith_skel (s : St) (px v) : (s.paintWith px v).skel = s.skel := by
  simp [skel]
@[simp] theorem paintWith_ids (s : St) (px v) : (s.paintWith px v).ids = s.ids := by
  simp [ids]
@[simp] theorem paintWith_hasNode (s : St) (px v n) : (s.paintWith px v).hasNode n = s.hasNode n :=
  hasNode_of_skel_sg (paintWith_skel s px v) n

/-- the graph part of AddNode -/
def addNodeRaw (s : St) (r : NodeRec) : St :=
  if s.hasNode r.id then s.updNode r.id (fun old => { r with other := amerge r.other old.other })
  else { s with nodes := s.nodes ++ [r] }

theorem addNodeRaw_new {s : St} {r : NodeRec} (h : s.hasNode r.id = false) :
    s.addNodeRaw r = { s with nodes := s.nodes ++ [r] } := by
  simp [addNodeRaw, h]

def trackAdd (s : St) (n : Node) : St :=
  match s.findNode n with
  | some r' => s.trackOnAdd r'
  | none => s

theorem Fr.trackAdd (s : St) (n : Node) : Fr s (s.trackAdd n) := by
  unfold St.trackAdd; split
  · exact Fr.trackOnAdd _ _
  · exact Fr.refl _

theorem pAddNode_ok_sg {s s' : St} {r : NodeRec} {pixels : Option (List Pix)} {rec : PrimRec}
    (h : s.pAddNode r pixels = .ok (s', rec)) :
    rec = .addNode r pixels ∧ (pixels.isSome = true → s.seg.isSome = true) ∧
      s' = (((s.paintWith pixels r.id).addNodeRaw r).rpUpdate r.id).trackAdd r.id := by
  unfold pAddNode at h
  split at h
  · cases h
  · split at h
    · cases h
    · rename_i h2
      simp only [Except.ok.injEq, Prod.mk.injEq] at h
      refine ⟨h.2.symm, ?_, h.1.symm⟩
      intro hp
      simp only [hp, Bool.true_and, Bool.not_eq_true, Option.isNone_eq_false_iff] at h2
      exact h2

/-- the graph part of DeleteNode -/
def delRaw (s : St) (n : Node) : St :=
  { s with nodes := s.nodes.filter (·.id != n),
           edges := s.edges.filter (fun e => e.e.1 != n && e.e.2 != n) }

def delPixels (s : St) (n : Node) (pixels : Option (List Pix)) : Option (List Pix) :=
  match pixels with
  | some p => some p
  | none => s.getPixels n

theorem pDelNode_ok_sg {s s' : St} {n : Node} {pixels : Option (List Pix)} {rec : PrimRec}
    (h : s.pDelNode n pixels = .ok (s', rec)) :
    ∃ r, s.findNode n = some r ∧ rec = .delNode (s.savedAttrs r) (s.delPixels n pixels) ∧
      s' = ((s.paintWith (s.delPixels n pixels) 0).delRaw n).trackOnDelete (s.savedAttrs r) := by
  unfold pDelNode at h
  split at h
  · cases h
  · rename_i r hr
    simp only [Except.ok.injEq, Prod.mk.injEq] at h
    exact ⟨r, hr, h.2.symm, h.1.symm⟩

theorem pUpdTid_ok_sg {s s' : St} {start : Node} {newT : Nat} {newL : Option Nat} {rec : PrimRec}
    (h : s.pUpdTid start newT newL = .ok (s', rec)) :
    ∃ r, s.findNode start = some r ∧ rec = .updTid start r.tid newT r.lin newL ∧
      s' = s.walk start r.tid newT r.lin newL := by
  unfold pUpdTid at h
  split at h
  · cases h
  · rename_i r hr
    simp only [Except.ok.injEq, Prod.mk.injEq] at h
    exact ⟨r, hr, h.2.symm, h.1.symm⟩

theorem Fr.pUpdTid {s s' : St} {start : Node} {newT : Nat} {newL : Option Nat} {rec : PrimRec}
    (h : s.pUpdTid start newT newL = .ok (s', rec)) : Fr s s' := by
  obtain ⟨r, -, -, rfl⟩ := pUpdTid_ok_sg h
  exact Fr.walk _ _ _ _ _ _

theorem pDelEdge_ok_sg {s s' : St} {e : Edge} {rec : PrimRec} (h : s.pDelEdge e = .ok (s', rec)) :
    s' = { s with edges := s.edges.filter (·.e != e) } := by
  unfold pDelEdge at h
  split at h
  · cases h
  · simp only [Except.ok.injEq, Prod.mk.injEq] at h
    exact h.1.symm

/-! ### 6. RpOK / IouOK through the array-writing primitives -/

theorem ids_append_sg (s : St) (r : NodeRec) :
    ({ s with nodes := s.nodes ++ [r] } : St).ids = s.ids ++ [r.id] := by
  simp [ids]

/-- node clause through `withSeg … ; rpUpdate n` when the other nodes' labels are untouched -/
theorem rpOK_write {s : St} {g : Seg} {ps : List Pix} {v : Nat} {n : Node} (hg : s.seg = some g)
    (hnd : s.ids.Nodup) (hm : RpOK s)
    (hpre : ∀ r ∈ s.nodes, r.id ≠ n → g.Untouched ps v r.id) :
    RpOK ((s.withSeg (g.setPixels ps v)).rpUpdate n) := by
  apply rpOK_rpUpdate (s := s.withSeg (g.setPixels ps v)) hnd
  intro g' hg' k hk r hr hne
  simp only [withSeg_seg, Option.some.injEq] at hg'
  subst hg'
  rw [Seg.maskVal_setPixels_other (hpre r hr hne)]
  exact hm g hg k hk r hr

theorem iouOf_withSeg_untouched {s : St} {g : Seg} {ps : List Pix} {v : Nat} (hg : s.seg = some g)
    {e : Edge} (h1 : g.Untouched ps v e.1) (h2 : g.Untouched ps v e.2) :
    (s.withSeg (g.setPixels ps v)).iouOf e = s.iouOf e := by
  simp only [iouOf, withSeg_seg, hg, timeOf_of_skel_sg (withSeg_skel s _)]
  cases s.timeOf e.1 with
  | none => rfl
  | some t1 =>
    cases s.timeOf e.2 with
    | none => rfl
    | some t2 =>
      simp only [Seg.offsetsOf_setPixels_other h1, Seg.offsetsOf_setPixels_other h2]

/-! ### 7. bulk regionprops -/

theorem seg_mem_insertNat {a x : Nat} {l : List Nat} : a ∈ insertNat x l ↔ a = x ∨ a ∈ l := by
  induction l with
  | nil => simp [insertNat]
  | cons y ys ih =>
    unfold insertNat
    split
    · simp
    · simp only [List.mem_cons, ih]
      constructor
      · rintro (h | h | h)
        · exact Or.inr (Or.inl h)
        · exact Or.inl h
        · exact Or.inr (Or.inr h)
      · rintro (h | h | h)
        · exact Or.inr (Or.inl h)
        · exact Or.inl h
        · exact Or.inr (Or.inr h)

theorem seg_mem_sortNat {a : Nat} {l : List Nat} : a ∈ sortNat l ↔ a ∈ l := by
  induction l with
  | nil => simp [sortNat]
  | cons x xs ih =>
    show a ∈ insertNat x (sortNat xs) ↔ _
    rw [seg_mem_insertNat, ih, List.mem_cons]

theorem mem_labelsOf {g : Seg} {t l : Nat} :
    l ∈ g.labelsOf t ↔ l ≠ 0 ∧ ∃ o, o < g.frame ∧ g.data.getD (t * g.frame + o) 0 = l := by
  simp only [Seg.labelsOf, List.mem_eraseDups, seg_mem_sortNat, List.mem_filter, List.mem_map,
    List.mem_range, bne_iff_ne]
  constructor
  · rintro ⟨⟨o, ho, rfl⟩, hne⟩; exact ⟨hne, o, ho, rfl⟩
  · rintro ⟨hne, o, ho, rfl⟩; exact ⟨⟨o, ho, rfl⟩, hne⟩

def rpWrites (g : Seg) : List (Nat × Nat) :=
  (List.range g.nframes).flatMap (fun t => (g.labelsOf t).map (fun l => (t, l)))

def rpStep (g : Seg) (ks : List Key) (st : St) (w : Nat × Nat) : St :=
  if st.hasNode w.2 then st.setOthers w.2 ks (Val.mask (g.pixelsOf w.1 w.2)) else st

theorem rpCompute_eq (s : St) (keys : List Key) (g : Seg) (hg : s.seg = some g)
    (hne : (keys.filter (s.rpActive.contains ·)).isEmpty = false) :
    s.rpCompute keys = (rpWrites g).foldl (rpStep g (keys.filter (s.rpActive.contains ·))) s := by
  unfold rpCompute
  simp only [hg, hne, rpWrites, List.foldl_flatMap, List.foldl_map]
  rfl

theorem rpStep_frame (g : Seg) (ks : List Key) (st : St) (w : Nat × Nat) :
    (rpStep g ks st w).skel = st.skel ∧ (rpStep g ks st w).seg = st.seg ∧
    (rpStep g ks st w).rpActive = st.rpActive ∧ (rpStep g ks st w).edges = st.edges := by
  unfold rpStep
  split
  · exact ⟨setOthers_skel .., setOthers_seg .., setOthers_rpActive .., setOthers_edges ..⟩
  · exact ⟨rfl, rfl, rfl, rfl⟩

theorem mem_skel_of_mem {s : St} {r : NodeRec} (h : r ∈ s.nodes) : (r.id, r.time) ∈ s.skel :=
  List.mem_map.mpr ⟨r, h, rfl⟩

theorem rpFold_inv (g : Seg) (ks : List Key) (s0 : St) :
    ∀ (W : List (Nat × Nat)) (st : St) (done : List (Nat × Nat)),
      st.skel = s0.skel →
      (∀ w ∈ W, ∀ r ∈ s0.nodes, r.id = w.2 → r.time = w.1) →
      (∀ r ∈ st.nodes, (r.time, r.id) ∈ done → ∀ k ∈ ks,
          alook k r.other = some (Val.mask (g.pixelsOf r.time r.id))) →
      (W.foldl (rpStep g ks) st).skel = s0.skel ∧ (W.foldl (rpStep g ks) st).seg = st.seg ∧
      (W.foldl (rpStep g ks) st).rpActive = st.rpActive ∧
      (W.foldl (rpStep g ks) st).edges = st.edges ∧
      (∀ r ∈ (W.foldl (rpStep g ks) st).nodes, ((r.time, r.id) ∈ done ∨ (r.time, r.id) ∈ W) →
          ∀ k ∈ ks, alook k r.other = some (Val.mask (g.pixelsOf r.time r.id))) := by
  intro W
  induction W with
  | nil =>
    intro st done h1 _ h3
    refine ⟨h1, rfl, rfl, rfl, ?_⟩
    intro r hr hd
    rcases hd with hd | hd
    · exact h3 r hr hd
    · cases hd
  | cons w W ih =>
    intro st done h1 h2 h3
    rw [List.foldl_cons]
    obtain ⟨f1, f2, f3, f4⟩ := rpStep_frame g ks st w
    have hstep : ∀ r ∈ (rpStep g ks st w).nodes, (r.time, r.id) ∈ w :: done → ∀ k ∈ ks,
        alook k r.other = some (Val.mask (g.pixelsOf r.time r.id)) := by
      intro r hr hd k hk
      unfold rpStep at hr
      split at hr
      · obtain ⟨r0, hr0, rfl⟩ := mem_setOthers.mp hr
        by_cases hid : r0.id = w.2
        · have hsk : (r0.id, r0.time) ∈ s0.skel := by rw [← h1]; exact mem_skel_of_mem hr0
          obtain ⟨r00, hr00, he⟩ := List.mem_map.mp hsk
          simp only [Prod.mk.injEq] at he
          have ht : r0.time = w.1 := by
            rw [← he.2]; exact h2 w (List.mem_cons_self ..) r00 hr00 (he.1.trans hid)
          simp only [hid, beq_self_eq_true, if_true]
          rw [alook_asets_mem hk, ht]
        · have hb : (r0.id == w.2) = false := by simpa using hid
          simp only [hb, Bool.false_eq_true, if_false] at hd ⊢
          rcases List.mem_cons.mp hd with hd | hd
          · exact absurd (by rw [← hd]) hid
          · exact h3 r0 hr0 hd k hk
      · rename_i hno
        rcases List.mem_cons.mp hd with hd | hd
        · exfalso
          apply hno
          rw [hasNode_iff_mem_ids_sg]
          exact List.mem_map.mpr ⟨r, hr, by rw [← hd]⟩
        · exact h3 r hr hd k hk
    obtain ⟨g1, g2, g3, g4, g5⟩ := ih (rpStep g ks st w) (w :: done) (f1.trans h1)
      (fun w' hw' => h2 w' (List.mem_cons_of_mem _ hw')) hstep
    refine ⟨g1, g2.trans f2, g3.trans f3, g4.trans f4, ?_⟩
    intro r hr hd
    apply g5 r hr
    rcases hd with hd | hd
    · exact Or.inl (List.mem_cons_of_mem _ hd)
    · rcases List.mem_cons.mp hd with hd | hd
      · exact Or.inl (hd ▸ List.mem_cons_self ..)
      · exact Or.inr hd

/-- shape well-formedness: whole frames only -/
def _root_.Ft.Seg.WF (g : Seg) : Prop := 0 < g.frame ∧ g.data.length % g.frame = 0

instance (g : Seg) : Decidable g.WF := by unfold Seg.WF; infer_instance

theorem getD_ne_zero_lt_sg {d : List Nat} {i : Nat} (h : d.getD i 0 ≠ 0) : i < d.length := by
  apply Classical.byContradiction
  intro hlt
  apply h
  simp [List.getD_eq_getElem?_getD, Nat.le_of_not_lt hlt]

theorem mem_rpWrites_of_node {s : St} {g : Seg} (hg : s.seg = some g) (hwf : g.WF) (hseg : SegOK s)
    {r : NodeRec} (hr : r ∈ s.nodes) (h0 : r.id ≠ 0) : (r.time, r.id) ∈ rpWrites g := by
  obtain ⟨p, hp1, hp2, hp3⟩ := Seg.pixelsOf_ne_nil.mp ((hseg g hg).1 r hr)
  have hlt : p < g.data.length := getD_ne_zero_lt_sg (by rw [hp3]; exact h0)
  simp only [rpWrites, List.mem_flatMap, List.mem_map, List.mem_range]
  refine ⟨r.time, ?_, r.id, ?_, rfl⟩
  · rw [Seg.nframes, if_neg (Nat.ne_of_gt hwf.1)]
    rw [← hp1]
    apply Nat.div_lt_of_lt_mul
    rw [Nat.mul_comm, Nat.div_mul_cancel (Nat.dvd_of_mod_eq_zero hwf.2)]
    exact hlt
  · rw [mem_labelsOf]
    refine ⟨h0, p % g.frame, Nat.mod_lt _ hp2, ?_⟩
    rw [← hp1, Nat.mul_comm, Nat.div_add_mod]
    exact hp3

theorem rpWrites_time {s : St} {g : Seg} (hg : s.seg = some g) (hnd : s.ids.Nodup) (hseg : SegOK s)
    {w : Nat × Nat} (hw : w ∈ rpWrites g) {r : NodeRec} (hr : r ∈ s.nodes) (hid : r.id = w.2) :
    r.time = w.1 := by
  simp only [rpWrites, List.mem_flatMap, List.mem_map, List.mem_range] at hw
  obtain ⟨t, -, l, hl, rfl⟩ := hw
  obtain ⟨hl0, o, ho, hd⟩ := mem_labelsOf.mp hl
  have hne : g.data.getD (t * g.frame + o) 0 ≠ 0 := by rw [hd]; exact hl0
  obtain ⟨r', hr', h1, h2⟩ := (hseg g hg).2 _ (getD_ne_zero_lt_sg hne) hne
  have : r = r' := rec_unique_sg hnd hr hr' (by rw [hid, h1, hd])
  subst this
  rw [← h2]
  have hpos : 0 < g.frame := Nat.lt_of_le_of_lt (Nat.zero_le _) ho
  rw [Nat.mul_comm, Nat.mul_add_div hpos, Nat.div_eq_of_lt ho, Nat.add_zero]

/-! ### 8. seg / skeleton frame through the composite user actions -/

structure Fs (s s' : St) : Prop where
  seg : s'.seg = s.seg
  skel : s'.skel = s.skel

theorem Fs.refl (s : St) : Fs s s := ⟨rfl, rfl⟩
theorem Fs.trans {a b c : St} (h1 : Fs a b) (h2 : Fs b c) : Fs a c :=
  ⟨h2.seg.trans h1.seg, h2.skel.trans h1.skel⟩
theorem Fr.toFs {s s' : St} (h : Fr s s') : Fs s s' := ⟨h.seg, h.skel⟩

theorem Fs.hasNode {s s' : St} (h : Fs s s') (n : Node) : s'.hasNode n = s.hasNode n :=
  hasNode_of_skel_sg h.skel n
theorem Fs.timeOf {s s' : St} (h : Fs s s') (n : Node) : s'.timeOf n = s.timeOf n :=
  timeOf_of_skel_sg h.skel n

/-- a primitive-like function that only moves within the seg/skeleton frame -/
def FsPrim (f : St → Except Err (St × PrimRec)) : Prop :=
  ∀ st st' r, f st = .ok (st', r) → Fs st st'

theorem FsPrim.pDelEdge (e : St → Edge) : FsPrim (fun st => st.pDelEdge (e st)) := by
  intro st st' r h
  rw [pDelEdge_ok_sg h]; exact ⟨rfl, rfl⟩

theorem FsPrim.pAddEdge (e : Edge) (a : List (Key × Val)) : FsPrim (fun st => st.pAddEdge e a) := by
  intro st st' r h
  obtain ⟨-, -, -, rfl⟩ := pAddEdge_ok_sg h
  exact ⟨(iouUpdateEdge_seg _ _).trans (addEdgeRaw_seg ..),
    (iouUpdateEdge_skel _ _).trans (by simp only [St.skel, addEdgeRaw_nodes])⟩

theorem FsPrim.pUpdTid (n : Node) (t : St → Nat) (l : St → Option Nat) :
    FsPrim (fun st => st.pUpdTid n (t st) (l st)) := by
  intro st st' r h
  exact (Fr.pUpdTid h).toFs

theorem FsPrim.pUpdTid_tidOf (m n : Node) (l : St → Option Nat) :
    FsPrim (fun st => match st.tidOf m with
      | some t => st.pUpdTid n t (l st)
      | none => .error .key) := by
  intro st st' r h
  simp only at h
  split at h
  · exact (Fr.pUpdTid h).toFs
  · cases h

theorem Fs.thenPrim {acc : UOut} {f : St → Except Err (St × PrimRec)} (hf : FsPrim f) :
    Fs acc.1 (thenPrim acc f).1 := by
  unfold St.thenPrim
  split
  · exact Fs.refl _
  · split
    · rename_i h; exact hf _ _ _ h
    · exact Fs.refl _

theorem Fs.thenUser {acc : UOut} {f : St → UOut} (hf : ∀ st, Fs st (f st).1) :
    Fs acc.1 (thenUser acc f).1 := by
  unfold St.thenUser
  split
  · exact Fs.refl _
  · simp only
    split <;> exact hf _

theorem thenPrim_ok_sg {acc : UOut} {f : St → Except Err (St × PrimRec)} {recs : List PrimRec}
    (h : (thenPrim acc f).2 = .ok recs) :
    ∃ recs0 st' r, acc.2 = .ok recs0 ∧ f acc.1 = .ok (st', r) ∧
      thenPrim acc f = (st', .ok (recs0 ++ [r])) := by
  unfold St.thenPrim at h ⊢
  split at h
  · cases h
  · rename_i recs0 h0
    split at h
    · rename_i st' r hf
      refine ⟨recs0, st', r, h0, hf, ?_⟩
      simp only [h0, hf]
    · cases h

theorem Fs.foldl {α} (F : UOut → α → UOut) (hF : ∀ acc x, Fs acc.1 (F acc x).1) (l : List α)
    (a : UOut) : Fs a.1 (l.foldl F a).1 := by
  induction l generalizing a with
  | nil => exact Fs.refl _
  | cons x l ih => exact (hF a x).trans (ih _)

theorem Fs.uDeleteEdge (s : St) (e : Edge) : Fs s (s.uDeleteEdge e).1 := by
  unfold St.uDeleteEdge
  split
  · exact Fs.refl _
  · have ha : Fs s (St.thenPrim (s, .ok []) (fun st => st.pDelEdge e)).1 :=
      Fs.thenPrim (acc := (s, .ok [])) (FsPrim.pDelEdge (fun _ => e))
    simp only
    split
    · exact ha.trans (Fs.thenPrim (FsPrim.pUpdTid _ (fun st => st.nextTid) (fun st => some st.nextLin)))
    · split
      · split
        · exact ha
        · exact ha.trans ((Fs.thenPrim (FsPrim.pUpdTid_tidOf _ _ (fun _ => none))).trans
            (Fs.thenPrim (FsPrim.pUpdTid_tidOf _ _ (fun st => some st.nextLin))))
      · exact ha

/-! #### uDeleteNode in pieces (copies of the model text, tied to it by `rfl`) -/

def udnA0 (s : St) (n : Node) : UOut :=
  (s.preds n).foldl (fun acc p =>
      match acc.2 with
      | .error _ => acc
      | .ok _ =>
        let sibs := acc.1.succs p
        let acc1 := if sibs.length == 2 then
            match (sibs.erase n).head? with
            | some sib => thenPrim acc (fun st => match st.tidOf p with
                | some t => st.pUpdTid sib t none
                | none => .error .key)
            | none => acc
          else acc
        thenPrim acc1 (fun st => st.pDelEdge (p, n))) (s, .ok [])

def udnA1 (a0 : UOut) (n : Node) : UOut :=
  (a0.1.succs n).foldl (fun acc c => thenPrim acc (fun st => st.pDelEdge (n, c))) a0

def udnA2 (a1' : UOut) (pred succ : Option Node) (orphans0 : List Node) : UOut × List Node :=
  match pred, succ with
  | some p, some sc => (thenPrim a1' (fun st => st.pAddEdge (p, sc) []), orphans0.erase sc)
  | _, _ => (a1', orphans0)

def udnA3 (a2 : UOut) (orphans : List Node) (hasPred : Bool) : UOut :=
  (List.zip (List.range orphans.length) orphans).foldl (fun acc io =>
      if hasPred || io.1 > 0 then
        thenPrim acc (fun st => match st.tidOf io.2 with
          | some t => st.pUpdTid io.2 t (some st.nextLin)
          | none => .error .key)
      else acc) a2

def udnTail (a1 : UOut) (n : Node) (pixels : Option (List Pix)) (hasPred : Bool)
    (orphans0 : List Node) : UOut :=
  match a1.2, a1.1.tidOf n, a1.1.timeOf n with
  | .error err, _, _ => (a1.1, .error err)
  | .ok _, some tid, some time =>
    let tn := a1.1.trackNeighbors tid time
    let a2 := udnA2 (tn.1, a1.2) tn.2.1 tn.2.2 orphans0
    thenPrim (udnA3 a2.1 a2.2 hasPred) (fun st => st.pDelNode n pixels)
  | .ok _, _, _ => (a1.1, .error .key)

theorem uDeleteNode_eq_sg (s : St) (n : Node) (pixels : Option (List Pix)) :
    s.uDeleteNode n pixels =
      if !(s.hasNode n) then (s, .error .key) else
      match (udnA0 s n).2 with
      | .error err => ((udnA0 s n).1, .error err)
      | .ok _ => udnTail (udnA1 (udnA0 s n) n) n pixels (!(s.preds n).isEmpty) ((udnA0 s n).1.succs n) := by
  rfl

theorem Fs.udnA0 (s : St) (n : Node) : Fs s (udnA0 s n).1 := by
  unfold St.udnA0
  apply Fs.foldl (a := (s, .ok []))
  intro acc p
  split
  · exact Fs.refl _
  · simp only
    refine Fs.trans ?_ (Fs.thenPrim (FsPrim.pDelEdge (fun _ => (p, n))))
    split
    · split
      · exact Fs.thenPrim (FsPrim.pUpdTid_tidOf _ _ (fun _ => none))
      · exact Fs.refl _
    · exact Fs.refl _

theorem Fs.udnA1 (a0 : UOut) (n : Node) : Fs a0.1 (udnA1 a0 n).1 := by
  unfold St.udnA1
  apply Fs.foldl
  intro acc c
  exact Fs.thenPrim (FsPrim.pDelEdge (fun _ => (n, c)))

theorem Fs.udnA2 (a1' : UOut) (pred succ : Option Node) (o : List Node) :
    Fs a1'.1 (udnA2 a1' pred succ o).1.1 := by
  unfold St.udnA2
  split
  · exact Fs.thenPrim (FsPrim.pAddEdge _ _)
  · exact Fs.refl _

theorem Fs.udnA3 (a2 : UOut) (o : List Node) (hp : Bool) : Fs a2.1 (udnA3 a2 o hp).1 := by
  unfold St.udnA3
  apply Fs.foldl
  intro acc io
  split
  · exact Fs.thenPrim (FsPrim.pUpdTid_tidOf _ _ (fun st => some st.nextLin))
  · exact Fs.refl _

theorem udnTail_ok {a1 : UOut} {n : Node} {pixels : Option (List Pix)} {hp : Bool} {o : List Node}
    {recs : List PrimRec} (h : (udnTail a1 n pixels hp o).2 = .ok recs) :
    ∃ st r, Fs a1.1 st ∧ st.pDelNode n pixels = .ok ((udnTail a1 n pixels hp o).1, r) := by
  generalize hout : udnTail a1 n pixels hp o = out at h ⊢
  unfold St.udnTail at hout
  split at hout
  · subst hout; cases h
  · subst hout
    simp only at h ⊢
    obtain ⟨recs0, st', r, -, hf, heq⟩ := thenPrim_ok_sg h
    refine ⟨_, r, ?_, by rw [heq]; exact hf⟩
    exact ((Fr.trackNeighbors a1.1 _ _).toFs.trans (Fs.udnA2 (_, a1.2) _ _ o)).trans
      (Fs.udnA3 _ _ hp)
  · subst hout; cases h

/-- an accepted `uDeleteNode` = seg/skeleton-neutral steps followed by one successful primitive
    DeleteNode, whose result is the final state -/
theorem uDeleteNode_ok_sg {s : St} {n : Node} {pixels : Option (List Pix)} {recs : List PrimRec}
    (h : (s.uDeleteNode n pixels).2 = .ok recs) :
    ∃ st r, Fs s st ∧ st.pDelNode n pixels = .ok ((s.uDeleteNode n pixels).1, r) := by
  rw [uDeleteNode_eq_sg] at h ⊢
  generalize hA0 : udnA0 s n = a0 at h ⊢
  have hfs0 : Fs s a0.1 := hA0 ▸ Fs.udnA0 s n
  split
  · rename_i hn; simp only [hn, if_true] at h; cases h
  · rename_i hn
    simp only [hn] at h
    split
    · rename_i heq; simp only [heq] at h; cases h
    · rename_i heq
      simp only [heq] at h
      obtain ⟨st, r, hfs, hd⟩ := udnTail_ok h
      exact ⟨st, r, (hfs0.trans (Fs.udnA1 _ n)).trans hfs, hd⟩

/-! #### uAddNode in pieces -/

def uanSucc (sN : St) (succ : Option Node) (force : Bool) : UOut :=
  match succ with
  | some sc =>
    match (sN.preds sc).head? with
    | some pos =>
      if sN.outdeg pos == 2 then
        if !force then (sN, .error .forceable)
        else thenUser (sN, .ok []) (fun st => st.uDeleteEdge (pos, sc))
      else (sN, .ok [])
    | none => (sN, .ok [])
  | none => (sN, .ok [])

def uanDiv (sN : St) (pred succ : Option Node) (force : Bool) : UOut :=
  match pred with
  | some p =>
    if sN.outdeg p == 2 then
      if !force then (sN, .error .forceable)
      else match sN.succs p with
        | [c1, c2] =>
          let b := thenUser (sN, .ok []) (fun st => st.uDeleteEdge (p, c1))
          thenUser b (fun st => st.uDeleteEdge (p, c2))
        | _ => (sN, .error .other)
    else uanSucc sN succ force
  | none => uanSucc sN succ force

def uanLin (a : AddNodeArgs) (s0 : St) (pred succ : Option Node) : Option Nat :=
  match a.lin with
  | some l => some l
  | none =>
    match pred, succ with
    | some p, _ => s0.linOf p
    | none, some sc => s0.linOf sc
    | none, none => some s0.nextLin

def uanEdges (a : AddNodeArgs) (pred succ : Option Node) (a2 : UOut) : UOut :=
  let a3 := match pred with
    | some p => thenPrim a2 (fun st => st.pAddEdge (p, a.node) [])
    | none => a2
  match succ with
  | some sc => thenPrim a3 (fun st => st.pAddEdge (a.node, sc) [])
  | none => a3

def uanRest (a : AddNodeArgs) (time tid : Nat) (pred succ : Option Node) (a0 : UOut) : UOut :=
  match a0.2 with
  | .error err => (a0.1, .error err)
  | .ok _ =>
    let a1 : UOut :=
      match pred, succ with
      | some p, some sc => thenPrim a0 (fun st => st.pDelEdge (p, sc))
      | _, _ => a0
    match a1.2 with
    | .error err => (a1.1, .error err)
    | .ok recs1 =>
      match a1.1.pAddNode { id := a.node, time := time, tid := tid, lin := uanLin a a0.1 pred succ,
                            other := a.other } a.pixels with
      | .error err => (a1.1.rollback recs1, .error err)
      | .ok (s2, r) => uanEdges a pred succ (s2, .ok (recs1 ++ [r]))

theorem uAddNode_eq_sg (s : St) (a : AddNodeArgs) :
    s.uAddNode a =
      match a.time, a.tid with
      | none, _ => (s, .error .invalid)
      | _, none => (s, .error .invalid)
      | some time, some tid0 =>
        if s.hasNode a.node then (s, .error .invalid) else
        let tid := if s.hasTrackAt tid0 time then s.nextTid else tid0
        let tn := s.trackNeighbors tid time
        uanRest a time tid tn.2.1 tn.2.2 (uanDiv tn.1 tn.2.1 tn.2.2 a.force) := by
  rfl

theorem Fs.uanSucc (sN : St) (succ : Option Node) (force : Bool) : Fs sN (uanSucc sN succ force).1 := by
  unfold St.uanSucc
  split
  · split
    · split
      · split
        · exact Fs.refl _
        · exact Fs.thenUser (acc := (sN, .ok [])) (fun st => Fs.uDeleteEdge st _)
      · exact Fs.refl _
    · exact Fs.refl _
  · exact Fs.refl _

theorem Fs.uanDiv (sN : St) (pred succ : Option Node) (force : Bool) :
    Fs sN (uanDiv sN pred succ force).1 := by
  unfold St.uanDiv
  split
  · split
    · split
      · exact Fs.refl _
      · split
        · exact (Fs.thenUser (acc := (sN, .ok [])) (fun st => Fs.uDeleteEdge st _)).trans
            (Fs.thenUser (fun st => Fs.uDeleteEdge st _))
        · exact Fs.refl _
    · exact Fs.uanSucc _ _ _
  · exact Fs.uanSucc _ _ _

theorem Fs.uanEdges (a : AddNodeArgs) (pred succ : Option Node) (a2 : UOut) :
    Fs a2.1 (uanEdges a pred succ a2).1 := by
  unfold St.uanEdges
  have h3 : Fs a2.1 (match pred with
      | some p => St.thenPrim a2 (fun st => st.pAddEdge (p, a.node) [])
      | none => a2).1 := by
    split
    · exact Fs.thenPrim (FsPrim.pAddEdge _ _)
    · exact Fs.refl _
  simp only
  split
  · exact h3.trans (Fs.thenPrim (FsPrim.pAddEdge _ _))
  · exact h3

theorem uanRest_ok {a : AddNodeArgs} {time tid : Nat} {pred succ : Option Node} {a0 : UOut}
    {recs : List PrimRec} (h : (uanRest a time tid pred succ a0).2 = .ok recs) :
    ∃ st s2 r lin, Fs a0.1 st ∧
      st.pAddNode { id := a.node, time := time, tid := tid, lin := lin, other := a.other } a.pixels
        = .ok (s2, r) ∧
      Fs s2 (uanRest a time tid pred succ a0).1 := by
  generalize hout : uanRest a time tid pred succ a0 = out at h ⊢
  unfold St.uanRest at hout
  split at hout
  · subst hout; cases h
  · simp only at hout
    have h1 : Fs a0.1 (match pred, succ with
        | some p, some sc => thenPrim a0 (fun st => st.pDelEdge (p, sc))
        | _, _ => a0).1 := by
      split
      · exact Fs.thenPrim (FsPrim.pDelEdge (fun _ => _))
      · exact Fs.refl _
    generalize (match pred, succ with
        | some p, some sc => thenPrim a0 (fun st => st.pDelEdge (p, sc))
        | _, _ => a0) = a1 at hout h1
    split at hout
    · subst hout; cases h
    · split at hout
      · subst hout; cases h
      · rename_i s2 r hadd
        subst hout
        exact ⟨a1.1, s2, r, _, h1, hadd, Fs.uanEdges a pred succ (s2, _)⟩

/-- an accepted `uAddNode` = seg/skeleton-neutral steps, one successful primitive AddNode of the
    new node in frame `time`, then seg/skeleton-neutral steps -/
theorem uAddNode_ok_sg {s : St} {a : AddNodeArgs} {recs : List PrimRec}
    (h : (s.uAddNode a).2 = .ok recs) :
    ∃ time tid lin st s2 r, a.time = some time ∧ s.hasNode a.node = false ∧ Fs s st ∧
      st.pAddNode { id := a.node, time := time, tid := tid, lin := lin, other := a.other } a.pixels
        = .ok (s2, r) ∧
      Fs s2 (s.uAddNode a).1 := by
  generalize hout : s.uAddNode a = out at h ⊢
  rw [uAddNode_eq_sg] at hout
  split at hout
  · subst hout; cases h
  · subst hout; cases h
  · rename_i time tid0 ht _
    split at hout
    · subst hout; cases h
    · rename_i hn
      simp only at hout
      subst hout
      obtain ⟨st, s2, r, lin, hfs, hadd, hfs2⟩ := uanRest_ok h
      refine ⟨time, _, lin, st, s2, r, ht, by simpa using hn, ?_, hadd, hfs2⟩
      exact ((Fr.trackNeighbors s _ _).toFs.trans (Fs.uanDiv _ _ _ _)).trans hfs

/-! #### seg / skeleton effect of the array-writing primitives -/

theorem pDelNode_seg_skel {st st' : St} {n : Node} {px : List Pix} {r : PrimRec} {g : Seg}
    (h : st.pDelNode n (some px) = .ok (st', r)) (hg : st.seg = some g) :
    st'.seg = some (g.setPixels px 0) ∧ st'.skel = st.skel.filter (·.1 != n) := by
  obtain ⟨r0, -, -, rfl⟩ := pDelNode_ok_sg h
  have hfr := Fr.trackOnDelete ((st.paintWith (st.delPixels n (some px)) 0).delRaw n) (st.savedAttrs r0)
  refine ⟨hfr.seg.trans ?_, hfr.skel.trans ?_⟩
  · show (st.paintWith (some px) 0).seg = _
    simp only [paintWith, hg]; rfl
  · simp only [St.skel, delRaw, paintWith_nodes, List.filter_map]
    rfl

theorem pUpdSeg_seg_skel {st st' : St} {n : Node} {px : List Pix} {added : Bool} {r : PrimRec} {g : Seg}
    (h : st.pUpdSeg n px added = .ok (st', r)) (hg : st.seg = some g) :
    st'.seg = some (g.setPixels px (if added then n else 0)) ∧ st'.skel = st.skel ∧
      st.hasNode n = true := by
  obtain ⟨g', hg', hn, -, rfl⟩ := pUpdSeg_ok_sg h
  rw [hg] at hg'; cases hg'
  exact ⟨(iouUpdateNode_seg _ _).trans (rpUpdate_seg _ _),
    (iouUpdateNode_skel _ _).trans (rpUpdate_skel _ _), hn⟩

theorem pAddNode_seg_skel {st s2 : St} {nr : NodeRec} {px : List Pix} {r : PrimRec} {g : Seg}
    (h : st.pAddNode nr (some px) = .ok (s2, r)) (hg : st.seg = some g)
    (hnew : st.hasNode nr.id = false) :
    s2.seg = some (g.setPixels px nr.id) ∧ s2.skel = st.skel ++ [(nr.id, nr.time)] := by
  obtain ⟨-, -, rfl⟩ := pAddNode_ok_sg h
  have hfr := Fr.trackAdd (((st.paintWith (some px) nr.id).addNodeRaw nr).rpUpdate nr.id) nr.id
  have hnew1 : (st.paintWith (some px) nr.id).hasNode nr.id = false := by
    rw [paintWith_hasNode, hnew]
  refine ⟨hfr.seg.trans ((rpUpdate_seg _ _).trans ?_), hfr.skel.trans ((rpUpdate_skel _ _).trans ?_)⟩
  · rw [addNodeRaw_new hnew1]
    show (st.paintWith (some px) nr.id).seg = _
    simp only [paintWith, hg]; rfl
  · rw [addNodeRaw_new hnew1]
    simp [St.skel]

/-! #### the group loop of `uUpdateSeg`, abstractly -/

abbrev Grp := List Pix × Nat

/-- one round of the group loop on (array, skeleton) -/
def segAbsStep (gk : Seg × List (Node × Nat)) (grp : Grp) : Seg × List (Node × Nat) :=
  if grp.2 == 0 then gk else
  match grp.1.head? with
  | some p0 =>
    if (gk.1.offsetsOf (p0 / gk.1.frame) grp.2).isEmpty then
      (gk.1.setPixels grp.1 0, gk.2.filter (·.1 != grp.2))
    else (gk.1.setPixels grp.1 0, gk.2)
  | none => gk

/-- the loop body of `uUpdateSeg` (copy of the model text, tied to it by `rfl` below) -/
def segGrpStep (acc : UOut) (grp : Grp) : UOut :=
  match acc.2 with
  | .error _ => acc
  | .ok _ =>
    if grp.2 == 0 then acc else
    match acc.1.seg, grp.1.head? with
    | some g, some p0 =>
      let time := p0 / g.frame
      if (g.offsetsOf time grp.2).isEmpty then
        thenUser acc (fun st => st.uDeleteNode grp.2 (some grp.1))
      else thenPrim acc (fun st => st.pUpdSeg grp.2 grp.1 false)
    | _, _ => (acc.1, .error .other)

theorem segGrpStep_error {acc : UOut} {e : Err} (h : acc.2 = .error e) (grp : Grp) :
    (segGrpStep acc grp).2 = .error e := by
  unfold segGrpStep; simp only [h]

theorem foldl_segGrpStep_error (gs : List Grp) {acc : UOut} {e : Err} (h : acc.2 = .error e) :
    (gs.foldl segGrpStep acc).2 = .error e := by
  induction gs generalizing acc with
  | nil => exact h
  | cons grp gs ih => exact ih (segGrpStep_error h grp)

theorem thenUser_ok_sg {acc : UOut} {f : St → UOut} {recs : List PrimRec}
    (h : (thenUser acc f).2 = .ok recs) :
    ∃ recs0 recs', acc.2 = .ok recs0 ∧ (f acc.1).2 = .ok recs' ∧ (thenUser acc f).1 = (f acc.1).1 := by
  unfold St.thenUser at h ⊢
  split at h
  · cases h
  · rename_i recs0 h0
    simp only at h
    split at h
    · rename_i recs' hf
      refine ⟨recs0, recs', h0, hf, ?_⟩
      simp only [h0, hf]
    · cases h

/-- one accepted round of the loop acts on (array, skeleton) like `segAbsStep` -/
theorem segGrpStep_ok {acc : UOut} {grp : Grp} {g : Seg} {recs : List PrimRec} (hg : acc.1.seg = some g)
    (h : (segGrpStep acc grp).2 = .ok recs) :
    (segGrpStep acc grp).1.seg = some (segAbsStep (g, acc.1.skel) grp).1 ∧
    (segGrpStep acc grp).1.skel = (segAbsStep (g, acc.1.skel) grp).2 := by
  generalize hout : segGrpStep acc grp = out at h ⊢
  unfold segGrpStep at hout
  unfold segAbsStep
  split at hout
  · subst hout; rename_i he; rw [he] at h; cases h
  · split at hout
    · rename_i h0; subst hout; simp only [h0, if_true]; exact ⟨hg, by first | rfl | trivial⟩
    · rename_i h0
      simp only [h0, Bool.false_eq_true, if_false]
      split at hout
      · rename_i g' p0 hg' hp0
        rw [hg] at hg'; cases hg'
        simp only [hp0]
        simp only at hout
        split at hout
        · rename_i hemp
          subst hout
          simp only [hemp, if_true]
          obtain ⟨recs0, recs', -, hok, h1⟩ := thenUser_ok_sg h
          obtain ⟨st, r, hfs, hdel⟩ := uDeleteNode_ok_sg hok
          obtain ⟨e1, e2⟩ := pDelNode_seg_skel hdel (hfs.seg.trans hg)
          rw [h1]
          exact ⟨e1, by rw [e2, hfs.skel]⟩
        · rename_i hemp
          subst hout
          simp only [hemp]
          obtain ⟨recs0, st', r, -, hf, heq⟩ := thenPrim_ok_sg h
          obtain ⟨e1, e2, -⟩ := pUpdSeg_seg_skel hf hg
          rw [heq]
          exact ⟨e1, e2⟩
      · subst hout; cases h

theorem foldl_segGrpStep_ok (gs : List Grp) {acc : UOut} {g : Seg} {recs : List PrimRec}
    (hg : acc.1.seg = some g) (h : (gs.foldl segGrpStep acc).2 = .ok recs) :
    (gs.foldl segGrpStep acc).1.seg = some (gs.foldl segAbsStep (g, acc.1.skel)).1 ∧
    (gs.foldl segGrpStep acc).1.skel = (gs.foldl segAbsStep (g, acc.1.skel)).2 := by
  induction gs generalizing acc g with
  | nil => exact ⟨hg, rfl⟩
  | cons grp gs ih =>
    rw [List.foldl_cons] at h ⊢
    cases hs : (segGrpStep acc grp).2 with
    | error e => rw [foldl_segGrpStep_error gs hs] at h; cases h
    | ok recs1 =>
      obtain ⟨e1, e2⟩ := segGrpStep_ok hg hs
      have := ih e1 h
      rw [e2] at this
      rw [List.foldl_cons]
      exact this

def uusGrow (a0 : UOut) (recs0 : List PrimRec) (newValue : Nat) (groups : List Grp) (curTid : Nat)
    (force : Bool) : UOut × Option Node :=
  if newValue != 0 && !groups.isEmpty then
    let allPix := groups.flatMap (·.1)
    match a0.1.seg, allPix.head? with
    | some g, some p0 =>
      let time := p0 / g.frame
      if a0.1.hasNode newValue then
        (thenPrim a0 (fun st => st.pUpdSeg newValue allPix true), none)
      else
        let r := a0.1.uAddNode { node := newValue, time := some time, tid := some curTid,
                                 lin := none, other := [], pixels := some allPix, force := force }
        match r.2 with
        | .ok recs' => ((r.1, .ok (recs0 ++ recs')), some newValue)
        | .error err => ((r.1.rollback recs0, .error err), none)
    | _, _ => ((a0.1, .error .other), none)
  else (a0, none)

theorem uUpdateSeg_eq_sg (s : St) (v : Nat) (groups : List Grp) (tid : Nat) (force : Bool) :
    s.uUpdateSeg v groups tid force =
      match s.seg with
      | none => ((s, .error .value), none)
      | some _ =>
        match (groups.foldl segGrpStep (s, .ok [])).2 with
        | .error err => (((groups.foldl segGrpStep (s, .ok [])).1, .error err), none)
        | .ok recs0 => uusGrow (groups.foldl segGrpStep (s, .ok [])) recs0 v groups tid force := by
  rfl

/-- the final "grow" part of an accepted `uUpdateSeg` on (array, skeleton) -/
theorem uusGrow_ok {a0 : UOut} {recs0 : List PrimRec} {v : Nat} {groups : List Grp} {tid : Nat}
    {force : Bool} {g : Seg} {recs : List PrimRec} (hg : a0.1.seg = some g)
    (h : (uusGrow a0 recs0 v groups tid force).1.2 = .ok recs) :
    ((v ≠ 0 ∧ groups ≠ []) → ∃ p0, (groups.flatMap (·.1)).head? = some p0 ∧
        (uusGrow a0 recs0 v groups tid force).1.1.seg = some (g.setPixels (groups.flatMap (·.1)) v) ∧
        ((a0.1.hasNode v = true ∧ (uusGrow a0 recs0 v groups tid force).1.1.skel = a0.1.skel) ∨
         (a0.1.hasNode v = false ∧
          (uusGrow a0 recs0 v groups tid force).1.1.skel = a0.1.skel ++ [(v, p0 / g.frame)]))) ∧
    (¬ (v ≠ 0 ∧ groups ≠ []) → (uusGrow a0 recs0 v groups tid force).1.1 = a0.1) := by
  generalize hout : uusGrow a0 recs0 v groups tid force = out at h ⊢
  unfold uusGrow at hout
  split at hout
  · rename_i hc
    have hc' : v ≠ 0 ∧ groups ≠ [] := by
      simp only [Bool.and_eq_true, bne_iff_ne, Bool.not_eq_true', List.isEmpty_eq_false_iff] at hc
      exact hc
    refine ⟨fun _ => ?_, fun hn => absurd hc' hn⟩
    simp only at hout
    split at hout
    · rename_i g' p0 hg' hp0
      rw [hg] at hg'; cases hg'
      refine ⟨p0, hp0, ?_⟩
      split at hout
      · rename_i hn
        subst hout
        simp only at h ⊢
        obtain ⟨recs1, st', r, -, hf, heq⟩ := thenPrim_ok_sg h
        obtain ⟨e1, e2, -⟩ := pUpdSeg_seg_skel hf hg
        rw [heq]
        simp only [if_true] at e1
        exact ⟨e1, Or.inl ⟨hn, e2⟩⟩
      · rename_i hn
        split at hout
        · rename_i recs' hok
          subst hout
          simp only
          obtain ⟨time, tid', lin, st, s2, r, ht, -, hfs, hadd, hfs2⟩ := uAddNode_ok_sg hok
          simp only [Option.some.injEq] at ht
          have hnew : st.hasNode v = false := by
            rw [hfs.hasNode]; simpa using hn
          obtain ⟨e1, e2⟩ := pAddNode_seg_skel hadd (hfs.seg.trans hg) hnew
          refine ⟨hfs2.seg.trans e1, Or.inr ⟨by simpa using hn, ?_⟩⟩
          rw [hfs2.skel, e2, hfs.skel, ← ht]
        · subst hout; cases h
    · subst hout; cases h
  · rename_i hc
    have hc' : ¬ (v ≠ 0 ∧ groups ≠ []) := by
      intro hh
      apply hc
      simp only [Bool.and_eq_true, bne_iff_ne, Bool.not_eq_true', List.isEmpty_eq_false_iff]
      exact hh
    subst hout
    exact ⟨fun hh => absurd hh hc', fun _ => rfl⟩

/-! #### pointwise description of the abstract group loop -/

theorem segAbsStep_frame (gk : Seg × List (Node × Nat)) (grp : Grp) :
    (segAbsStep gk grp).1.frame = gk.1.frame ∧ (segAbsStep gk grp).1.data.length = gk.1.data.length := by
  unfold segAbsStep
  split
  · exact ⟨rfl, rfl⟩
  · split
    · split <;> exact ⟨rfl, Seg.setPixels_length ..⟩
    · exact ⟨rfl, rfl⟩

theorem segAbsStep_getD (gk : Seg × List (Node × Nat)) (grp : Grp) (i : Nat) :
    (segAbsStep gk grp).1.data.getD i 0 = gk.1.data.getD i 0 ∨
      (grp.2 ≠ 0 ∧ i ∈ grp.1 ∧ i < gk.1.data.length ∧ (segAbsStep gk grp).1.data.getD i 0 = 0) := by
  unfold segAbsStep
  split
  · exact Or.inl rfl
  · rename_i h0
    have h0' : grp.2 ≠ 0 := by simpa using h0
    split
    · have key : (gk.1.setPixels grp.1 0).data.getD i 0 = gk.1.data.getD i 0 ∨
          (grp.2 ≠ 0 ∧ i ∈ grp.1 ∧ i < gk.1.data.length ∧ (gk.1.setPixels grp.1 0).data.getD i 0 = 0) := by
        rw [Seg.setPixels_getD]
        by_cases hc : i ∈ grp.1 ∧ i < gk.1.data.length
        · rw [if_pos hc]; exact Or.inr ⟨h0', hc.1, hc.2, rfl⟩
        · rw [if_neg hc]; exact Or.inl rfl
      split <;> exact key
    · exact Or.inl rfl

theorem foldl_segAbsStep_frame (gs : List Grp) (gk : Seg × List (Node × Nat)) :
    (gs.foldl segAbsStep gk).1.frame = gk.1.frame ∧
    (gs.foldl segAbsStep gk).1.data.length = gk.1.data.length := by
  induction gs generalizing gk with
  | nil => exact ⟨rfl, rfl⟩
  | cons grp gs ih =>
    rw [List.foldl_cons]
    obtain ⟨a, b⟩ := ih (segAbsStep gk grp)
    obtain ⟨c, d⟩ := segAbsStep_frame gk grp
    exact ⟨a.trans c, b.trans d⟩

theorem foldl_segAbsStep_getD (gs : List Grp) (gk : Seg × List (Node × Nat)) (i : Nat) :
    (gs.foldl segAbsStep gk).1.data.getD i 0 = gk.1.data.getD i 0 ∨
      ((∃ grp ∈ gs, grp.2 ≠ 0 ∧ i ∈ grp.1) ∧ i < gk.1.data.length ∧
        (gs.foldl segAbsStep gk).1.data.getD i 0 = 0) := by
  induction gs generalizing gk with
  | nil => exact Or.inl rfl
  | cons grp gs ih =>
    rw [List.foldl_cons]
    rcases ih (segAbsStep gk grp) with h | ⟨⟨grp', hm, hne, hi⟩, hlt, hz⟩
    · rcases segAbsStep_getD gk grp i with h2 | ⟨hne, hi, hlt, hz⟩
      · exact Or.inl (h.trans h2)
      · exact Or.inr ⟨⟨grp, List.mem_cons_self .., hne, hi⟩, hlt, h.trans hz⟩
    · exact Or.inr ⟨⟨grp', List.mem_cons_of_mem _ hm, hne, hi⟩, (segAbsStep_frame gk grp).2 ▸ hlt, hz⟩

/-- an accepted `uUpdateSeg` on (array, skeleton): the abstract group loop, then the grow step -/
theorem uUpdateSeg_ok_sg {s : St} {v : Nat} {groups : List Grp} {tid : Nat} {force : Bool} {g : Seg}
    {recs : List PrimRec} (hg : s.seg = some g)
    (h : (s.uUpdateSeg v groups tid force).1.2 = .ok recs) :
    ((v ≠ 0 ∧ groups ≠ []) → ∃ p0, (groups.flatMap (·.1)).head? = some p0 ∧
        (s.uUpdateSeg v groups tid force).1.1.seg
          = some ((groups.foldl segAbsStep (g, s.skel)).1.setPixels (groups.flatMap (·.1)) v) ∧
        ((v ∈ (groups.foldl segAbsStep (g, s.skel)).2.map (·.1) ∧
            (s.uUpdateSeg v groups tid force).1.1.skel = (groups.foldl segAbsStep (g, s.skel)).2) ∨
         (v ∉ (groups.foldl segAbsStep (g, s.skel)).2.map (·.1) ∧
            (s.uUpdateSeg v groups tid force).1.1.skel
              = (groups.foldl segAbsStep (g, s.skel)).2 ++ [(v, p0 / g.frame)]))) ∧
    (¬ (v ≠ 0 ∧ groups ≠ []) →
        (s.uUpdateSeg v groups tid force).1.1.seg = some (groups.foldl segAbsStep (g, s.skel)).1 ∧
        (s.uUpdateSeg v groups tid force).1.1.skel = (groups.foldl segAbsStep (g, s.skel)).2) := by
  rw [uUpdateSeg_eq_sg] at h ⊢
  simp only [hg] at h ⊢
  cases h0 : (groups.foldl segGrpStep (s, .ok [])).2 with
  | error e => simp only [h0] at h; cases h
  | ok recs0 =>
    simp only [h0] at h ⊢
    obtain ⟨e1, e2⟩ := foldl_segGrpStep_ok groups (acc := (s, .ok [])) hg h0
    obtain ⟨k1, k2⟩ := uusGrow_ok e1 h
    have hfr := (foldl_segAbsStep_frame groups (g, s.skel)).1
    have hmem : ∀ st : St, st.hasNode v = true ↔ v ∈ st.skel.map (·.1) := by
      intro st; rw [hasNode_iff_mem_ids_sg, ids_eq_skel_sg]
    refine ⟨fun hc => ?_, fun hc => ?_⟩
    · obtain ⟨p0, hp0, hs, hk⟩ := k1 hc
      refine ⟨p0, hp0, hs, ?_⟩
      rcases hk with ⟨hn, hk⟩ | ⟨hn, hk⟩
      · left; rw [← e2]; exact ⟨(hmem _).mp hn, hk⟩
      · right
        rw [← e2]
        refine ⟨fun hin => ?_, ?_⟩
        · have := (hmem _).mpr hin
          rw [hn] at this; cases this
        · rw [hk]; simp only [hfr]
    · rw [k2 hc]; exact ⟨e1, e2⟩

/-! ### 9. paint at session level; array restoration -/

theorem step_paint_eq_sg {s : St} {g : Seg} (hg : s.seg = some g) (v : Nat) (groups : List Grp)
    (tid : Nat) (force : Bool) :
    s.step (.paint v groups tid force) =
      (match ((s.withSeg (g.setPixels (groups.flatMap (·.1)) v)).uUpdateSeg v groups tid force).1.2 with
       | .ok _ => commit ((s.withSeg (g.setPixels (groups.flatMap (·.1)) v)).uUpdateSeg v groups tid force).1
                    ((s.withSeg (g.setPixels (groups.flatMap (·.1)) v)).uUpdateSeg v groups tid force).2
       | .error e =>
         match ((s.withSeg (g.setPixels (groups.flatMap (·.1)) v)).uUpdateSeg v groups tid force).1.1.seg with
         | some g' =>
           ({ ((s.withSeg (g.setPixels (groups.flatMap (·.1)) v)).uUpdateSeg v groups tid force).1.1 with
                seg := some (groups.foldl (fun (acc : Seg) (grp : List Pix × Nat) => acc.setPixels grp.1 grp.2) g') },
            .err e)
         | none => (((s.withSeg (g.setPixels (groups.flatMap (·.1)) v)).uUpdateSeg v groups tid force).1.1, .err e)) := by
  unfold St.step
  simp only [hg]
  rfl

theorem paint_ok_sg {s s' : St} {v : Nat} {groups : List Grp} {tid : Nat} {force : Bool} {g : Seg}
    (hg : s.seg = some g) (h : s.step (.paint v groups tid force) = (s', .ok)) :
    ∃ recs, ((s.withSeg (g.setPixels (groups.flatMap (·.1)) v)).uUpdateSeg v groups tid force).1.2 = .ok recs ∧
      s'.seg = ((s.withSeg (g.setPixels (groups.flatMap (·.1)) v)).uUpdateSeg v groups tid force).1.1.seg ∧
      s'.nodes = ((s.withSeg (g.setPixels (groups.flatMap (·.1)) v)).uUpdateSeg v groups tid force).1.1.nodes ∧
      s'.edges = ((s.withSeg (g.setPixels (groups.flatMap (·.1)) v)).uUpdateSeg v groups tid force).1.1.edges := by
  rw [step_paint_eq_sg hg] at h
  generalize (s.withSeg (g.setPixels (groups.flatMap (·.1)) v)).uUpdateSeg v groups tid force = U at h ⊢
  split at h
  · rename_i recs hr
    refine ⟨recs, hr, ?_⟩
    unfold St.commit at h
    simp only [hr, Prod.mk.injEq] at h
    obtain ⟨rfl, -⟩ := h
    exact ⟨rfl, rfl, rfl⟩
  · split at h <;> (simp only [Prod.mk.injEq] at h; exact absurd h.2 (by simp))

theorem _root_.Ft.Seg.setPixels_restore {g : Seg} {px : List Pix} {a b : Nat}
    (h : ∀ p ∈ px, p < g.data.length → g.data.getD p 0 = b) :
    (g.setPixels px a).setPixels px b = g := by
  apply Seg.ext_getD
  · rfl
  · simp
  · intro i hi
    rw [Seg.setPixels_getD, Seg.setPixels_getD]
    simp only [Seg.setPixels_length] at hi ⊢
    by_cases hc : i ∈ px
    · simp only [hc, hi, and_self, if_true]; exact (h i hc hi).symm
    · simp only [hc, false_and, if_false]

theorem findNode_id_sg {s : St} {n : Node} {r : NodeRec} (h : s.findNode n = some r) : r.id = n := by
  have := List.find?_some h
  simpa using this

/-! ### 10. SegOK on (array, skeleton) -/

def SegOKk (g : Seg) (k : List (Node × Nat)) : Prop :=
  (∀ p ∈ k, g.pixelsOf p.2 p.1 ≠ []) ∧
  (∀ i, i < g.data.length → g.data.getD i 0 ≠ 0 → (g.data.getD i 0, i / g.frame) ∈ k)

theorem segOK_iff_skel (s : St) : SegOK s ↔ ∀ g, s.seg = some g → SegOKk g s.skel := by
  simp only [SegOK, SegOKk, St.skel, List.mem_map]
  constructor
  · intro h g hg
    obtain ⟨h1, h2⟩ := h g hg
    refine ⟨?_, ?_⟩
    · rintro p ⟨r, hr, rfl⟩; exact h1 r hr
    · intro i hi hne
      obtain ⟨r, hr, e1, e2⟩ := h2 i hi hne
      exact ⟨r, hr, by rw [e1, e2]⟩
  · intro h g hg
    obtain ⟨h1, h2⟩ := h g hg
    refine ⟨?_, ?_⟩
    · intro r hr; exact h1 (r.id, r.time) ⟨r, hr, rfl⟩
    · intro i hi hne
      obtain ⟨r, hr, e⟩ := h2 i hi hne
      simp only [Prod.mk.injEq] at e
      exact ⟨r, hr, e.1, e.2.symm⟩

theorem Fs.segOK {s s' : St} (h : Fs s s') (hs : SegOK s) : SegOK s' := by
  rw [segOK_iff_skel] at hs ⊢
  intro g hg
  rw [h.seg] at hg; rw [h.skel]; exact hs g hg

/-- AddNode of a new label on background (or on pixels already carrying the label) -/
theorem segOKk_add {g : Seg} {k : List (Node × Nat)} {ps : List Pix} {n t : Nat}
    (h : SegOKk g k) (hpos : 0 < g.frame) (h0 : ∀ p ∈ k, p.1 ≠ 0)
    (hbg : ∀ p ∈ ps, p < g.data.length → g.data.getD p 0 = 0 ∨ g.data.getD p 0 = n)
    (hfr : ∀ p ∈ ps, p < g.data.length → p / g.frame = t)
    (hne : ∃ p ∈ ps, p < g.data.length) (hnew : ∀ p ∈ k, p.1 ≠ n) :
    SegOKk (g.setPixels ps n) (k ++ [(n, t)]) := by
  refine ⟨?_, ?_⟩
  · intro p hp
    rcases List.mem_append.mp hp with hp | hp
    · have hu : g.Untouched ps n p.1 := by
        refine ⟨hnew p hp, fun q hq hlt e => ?_⟩
        rcases hbg q hq hlt with h1 | h1
        · exact h0 p hp (by rw [← e, h1])
        · exact hnew p hp (by rw [← e, h1])
      rw [Seg.pixelsOf_setPixels_other hu]; exact h.1 p hp
    · simp only [List.mem_singleton] at hp
      subst hp
      obtain ⟨q, hq, hlt⟩ := hne
      rw [Seg.pixelsOf_ne_nil]
      refine ⟨q, hfr q hq hlt, hpos, ?_⟩
      rw [Seg.setPixels_getD, if_pos ⟨hq, hlt⟩]
  · intro i hi hne0
    rw [Seg.setPixels_length] at hi
    rw [Seg.setPixels_getD] at hne0 ⊢
    simp only [Seg.setPixels_frame]
    by_cases hc : i ∈ ps ∧ i < g.data.length
    · rw [if_pos hc]
      exact List.mem_append.mpr (Or.inr (by rw [hfr i hc.1 hc.2]; exact List.mem_singleton.mpr rfl))
    · rw [if_neg hc] at hne0 ⊢
      exact List.mem_append.mpr (Or.inl (h.2 i hi hne0))

/-- DeleteNode zeroing exactly the pixels of the label -/
theorem segOKk_del {g : Seg} {k : List (Node × Nat)} {px : List Pix} {n : Nat}
    (h : SegOKk g k) (h0 : ∀ p ∈ k, p.1 ≠ 0)
    (hcover : ∀ i, i < g.data.length → g.data.getD i 0 = n → i ∈ px)
    (honly : ∀ p ∈ px, p < g.data.length → g.data.getD p 0 = n ∨ g.data.getD p 0 = 0) :
    SegOKk (g.setPixels px 0) (k.filter (·.1 != n)) := by
  refine ⟨?_, ?_⟩
  · intro p hp
    obtain ⟨hp, hpn⟩ := List.mem_filter.mp hp
    have hpn' : p.1 ≠ n := by simpa using hpn
    have hu : g.Untouched px 0 p.1 := by
      refine ⟨h0 p hp, fun q hq hlt e => ?_⟩
      rcases honly q hq hlt with h1 | h1
      · exact hpn' (by rw [← e, h1])
      · exact h0 p hp (by rw [← e, h1])
    rw [Seg.pixelsOf_setPixels_other hu]; exact h.1 p hp
  · intro i hi hne0
    rw [Seg.setPixels_length] at hi
    rw [Seg.setPixels_getD] at hne0 ⊢
    simp only [Seg.setPixels_frame]
    by_cases hc : i ∈ px ∧ i < g.data.length
    · rw [if_pos hc] at hne0; exact absurd rfl hne0
    · rw [if_neg hc] at hne0 ⊢
      refine List.mem_filter.mpr ⟨h.2 i hi hne0, ?_⟩
      simp only [bne_iff_ne, ne_eq]
      intro e
      exact hc ⟨hcover i hi e, hi⟩

theorem pDelNode_seg_skel' {st st' : St} {n : Node} {pixels : Option (List Pix)} {px : List Pix}
    {r : PrimRec} {g : Seg} (h : st.pDelNode n pixels = .ok (st', r)) (hg : st.seg = some g)
    (hdp : st.delPixels n pixels = some px) :
    st'.seg = some (g.setPixels px 0) ∧ st'.skel = st.skel.filter (·.1 != n) := by
  obtain ⟨r0, -, -, rfl⟩ := pDelNode_ok_sg h
  have hfr := Fr.trackOnDelete ((st.paintWith (st.delPixels n pixels) 0).delRaw n) (st.savedAttrs r0)
  refine ⟨hfr.seg.trans ?_, hfr.skel.trans ?_⟩
  · show (st.paintWith (st.delPixels n pixels) 0).seg = _
    rw [hdp]; simp only [paintWith, hg]; rfl
  · simp only [St.skel, delRaw, paintWith_nodes, List.filter_map]
    rfl

theorem skel_ne_of_hasNode_false {s : St} {n : Node} (h : s.hasNode n = false) :
    ∀ p ∈ s.skel, p.1 ≠ n := by
  intro p hp e
  have : n ∈ s.ids := by
    rw [ids_eq_skel_sg]; exact List.mem_map.mpr ⟨p, hp, e⟩
  rw [← hasNode_iff_mem_ids_sg, h] at this; cases this

theorem skel_ne_zero {s : St} (h : ∀ r ∈ s.nodes, r.id ≠ 0) : ∀ p ∈ s.skel, p.1 ≠ 0 := by
  intro p hp
  obtain ⟨r, hr, rfl⟩ := List.mem_map.mp hp
  exact h r hr

end St
end Ft
