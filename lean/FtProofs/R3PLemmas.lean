/-
  FtProofs.R3PLemmas — package R3P (C01/C03): ONE equivalence for all seven primitive inverse
  laws, and congruence of the invariants under it.

  §1  `MaxOK` (the id maxima bound every id in use — the one part of `BookOK` that `ObsEq`
      cannot see), the common equivalence
          `E s t := ObsEq s t ∧ (WF s ↔ WF t) ∧ (MaxOK s ↔ MaxOK t)`,
      `E_isEquiv`, `E_stepped`, `Good s := WF s ∧ MaxOK s`.
  §2  congruence: on well-formed states `ObsEq` preserves `Forest`, `TidOK`, `LinOK`, `BookOK`
      (given `MaxOK`), `Valid`, `SegOK`, `MeasOK` (given `SegOK`); packaged for `E`.
  §3  `MaxOK` through the primitives; the transfer lemma `InvLaw ObsW → InvLaw E`.
  §4  `AddEdge` / `DeleteEdge`: symmetric step relation `EdgeStep`, laws over `ObsW`.
  §5  `UpdateTrackIDs` over `E` (from `R2A2.UpdRec.inverse`, which only needs the tracks view).
  §6  the seven `law_*` lemmas in `R2A1.InvLaw E` form, the post-state facts `good_*`, the bridge
      `obligation_E` to `C02_session`, chain helpers (`chain_*`, `Run`).
  §7  checkable forms (`MaxOKb`, `obsEq_of_check`, `AddEdgePre.of_records`), example states, the two
      state-changing queries stay in the `E`-class (`E_newNodeIds`, `E_trackNeighbors`).
  §8  `EdgeInv`: the state-level edge-attribute invariant behind `AddEdgePre`/`DelEdgePre`, its
      congruence, and its preservation by AddEdge / DeleteEdge / UpdateNodeAttrs / UpdateTrackIDs.
  §9  the laws from the symmetric step descriptions alone (`law_of_segStep`, `law_of_nodeRel`, …),
      `law_congr`, `law_undo_redo`.
-/
import FtProofs.R2A1Lemmas
import FtProofs.R2A2Lemmas

namespace Ft.R3P
open Ft Ft.St Ft.R2A1 List

/-! ## §1 the common equivalence -/

/-- the id maxima bound every track id in use, and (lineage feature on) every lineage id in use:
    the `t_max` / `l_max` part of `BookOK`, on node records -/
def MaxOK (s : St) : Prop :=
  ∀ r ∈ s.nodes, r.tid ≤ s.maxTid ∧ (s.linOn = true → ∀ l, r.lin = some l → l ≤ s.maxLin)

theorem MaxOK.stepped_iff (u : St) (h : Hist ActRec) : MaxOK (stepped u h) ↔ MaxOK u := Iff.rfl

theorem MaxOK.t_max {s : St} (h : MaxOK s) (n : Node) (t : Nat) (ht : s.tidOf n = some t) :
    t ≤ s.maxTid := by
  unfold tidOf at ht
  cases hf : s.findNode n with
  | none => rw [hf] at ht; cases ht
  | some r =>
    rw [hf] at ht
    simp only [Option.map_some, Option.some.injEq] at ht
    rw [← ht]; exact (h r (PC.findNode_some_mem hf).1).1

theorem MaxOK.l_max {s : St} (h : MaxOK s) (hon : s.linOn = true) (n : Node) (l : Nat)
    (hl : s.linOf n = some l) : l ≤ s.maxLin := by
  unfold linOf at hl
  cases hf : s.findNode n with
  | none => rw [hf] at hl; cases hl
  | some r =>
    rw [hf] at hl
    exact (h r (PC.findNode_some_mem hf).1).2 hon l hl

theorem MaxOK.of_book {s : St} (hn : s.ids.Nodup) (hb : BookOK s) : MaxOK s := by
  intro r hr
  have hf : s.findNode r.id = some r := (R2A2.mem_nodes_iff hn r).1 hr
  refine ⟨hb.t_max r.id r.tid (by unfold tidOf; rw [hf]; rfl), fun hon l hl => ?_⟩
  exact hb.l_max hon r.id l (by unfold linOf; rw [hf]; exact hl)

/-- **the common equivalence** of all seven primitive inverse laws: observationally equal,
    well-formed together, id maxima sound together -/
abbrev E (s t : St) : Prop := ObsEq s t ∧ (WF s ↔ WF t) ∧ (MaxOK s ↔ MaxOK t)

theorem E_isEquiv : IsEquiv E :=
  ⟨fun s => ⟨ObsEq.refl s, Iff.rfl, Iff.rfl⟩, fun h => ⟨h.1.symm, h.2.1.symm, h.2.2.symm⟩,
    fun h g => ⟨h.1.trans g.1, h.2.1.trans g.2.1, h.2.2.trans g.2.2⟩⟩

/-- `E` ignores the control fields `hist`, `refreshes`, `lastPayload` -/
theorem E_stepped (u : St) (h : Hist ActRec) : E (stepped u h) u :=
  ⟨ObsEq.stepped u h, WF.stepped_iff u h, MaxOK.stepped_iff u h⟩

theorem E.obsEq {s t : St} (h : E s t) : ObsEq s t := h.1
theorem E.toObsW {s t : St} (h : E s t) : ObsW s t := ⟨h.1, h.2.1⟩
theorem E.wf_left {s t : St} (h : E s t) (ht : WF t) : WF s := h.2.1.mpr ht
theorem E.wf_right {s t : St} (h : E s t) (hs : WF s) : WF t := h.2.1.mp hs
theorem E.max_left {s t : St} (h : E s t) (ht : MaxOK t) : MaxOK s := h.2.2.mpr ht
theorem E.max_right {s t : St} (h : E s t) (hs : MaxOK s) : MaxOK t := h.2.2.mp hs
theorem E.obsF {s t : St} (h : E s t) (ht : WF t) : ObsF s t := h.toObsW.obsF ht

theorem E.mk' {s t : St} (h : ObsEq s t) (hs : WF s) (ht : WF t) (ms : MaxOK s) (mt : MaxOK t) :
    E s t := ⟨h, ⟨fun _ => ht, fun _ => hs⟩, ⟨fun _ => mt, fun _ => ms⟩⟩

theorem E.of_obsW {s t : St} (h : ObsW s t) (ms : MaxOK s) (mt : MaxOK t) : E s t :=
  ⟨h.1, h.2, ⟨fun _ => mt, fun _ => ms⟩⟩

/-- the states on which everything is meaningful -/
structure Good (s : St) : Prop where
  wf : WF s
  max : MaxOK s

theorem Good.of_E {s t : St} (h : E s t) (ht : Good t) : Good s := ⟨h.wf_left ht.wf, h.max_left ht.max⟩
theorem E.of_good {s t : St} (h : ObsEq s t) (hs : Good s) (ht : Good t) : E s t :=
  E.mk' h hs.wf ht.wf hs.max ht.max

theorem Good.stepped_iff (u : St) (h : Hist ActRec) : Good (stepped u h) ↔ Good u :=
  ⟨fun ⟨a, b⟩ => ⟨(WF.stepped_iff u h).mp a, b⟩, fun ⟨a, b⟩ => ⟨(WF.stepped_iff u h).mpr a, b⟩⟩

/-- `Valid` + distinct attribute keys gives `Good` -/
theorem Good.of_invariants {s : St} (hf : Forest s) (hb : BookOK s)
    (hn : ∀ r ∈ s.nodes, (r.other.map (·.1)).Nodup) (he : ∀ r ∈ s.edges, (r.attrs.map (·.1)).Nodup) :
    Good s := ⟨WF.of_invariants hf hb hn he, MaxOK.of_book hf.nodup_nodes hb⟩

/-! ## §2 congruence of the invariants -/

/-- the tracks view of R2A2 is part of the function-level observation -/
theorem obsF_tv {s t : St} (h : ObsF s t) : R2A2.TV s t :=
  ⟨timeOf_congr h.nodes, fun n => by rw [tidOf_eq_nobs, tidOf_eq_nobs, h.nodes],
    fun n => by rw [linOf_eq_nobs, linOf_eq_nobs, h.nodes], edgeList_congr h.edges,
    (reg_fields h.reg).2.2.2.2.2.2.1⟩

theorem obsF_teq {s t : St} (h : ObsF s t) : R2A2.TEq s t := ⟨obsF_tv h, h.t2n, h.l2n⟩

section TV
variable {a b : St}

theorem tv_outdeg (h : R2A2.TV a b) (ha : a.edgeList.Nodup) (hb : b.edgeList.Nodup) (u : Node) :
    a.outdeg u = b.outdeg u := by
  rw [tk_outdeg_eq, tk_outdeg_eq]
  exact (((perm_ext_iff_of_nodup ha hb).2 h.edges).filter _).length_eq

theorem tv_indeg (h : R2A2.TV a b) (ha : a.edgeList.Nodup) (hb : b.edgeList.Nodup) (v : Node) :
    a.indeg v = b.indeg v := by
  rw [tk_indeg_eq, tk_indeg_eq]
  exact (((perm_ext_iff_of_nodup ha hb).2 h.edges).filter _).length_eq

theorem tv_forest (h : R2A2.TV a b) (hn : b.ids.Nodup) (he : b.edgeList.Nodup) (hf : Forest a) :
    Forest b where
  nodup_nodes := hn
  nodup_edges := he
  src_mem := fun e hm => (h.ids _).1 (hf.src_mem e ((h.edges e).2 hm))
  dst_mem := fun e hm => (h.ids _).1 (hf.dst_mem e ((h.edges e).2 hm))
  forward := fun e hm t1 t2 h1 h2 =>
    hf.forward e ((h.edges e).2 hm) t1 t2 ((h.time _).trans h1) ((h.time _).trans h2)
  indeg_le := fun v => by rw [← tv_indeg h hf.nodup_edges he]; exact hf.indeg_le v
  outdeg_le := fun u => by rw [← tv_outdeg h hf.nodup_edges he]; exact hf.outdeg_le u

theorem tv_isHead (h : R2A2.TV a b) (ha : a.edgeList.Nodup) (hb : b.edgeList.Nodup) (n : Node) :
    a.IsHead n ↔ b.IsHead n := by
  unfold IsHead
  constructor
  · rintro ⟨h1, h2⟩
    exact ⟨(h.ids n).1 h1, fun p hp => by rw [← tv_outdeg h ha hb]; exact h2 p ((h.edges _).2 hp)⟩
  · rintro ⟨h1, h2⟩
    exact ⟨(h.ids n).2 h1, fun p hp => by rw [tv_outdeg h ha hb]; exact h2 p ((h.edges _).1 hp)⟩

theorem tv_isRoot (h : R2A2.TV a b) (n : Node) : a.IsRoot n ↔ b.IsRoot n := by
  unfold IsRoot
  constructor
  · rintro ⟨h1, h2⟩; exact ⟨(h.ids n).1 h1, fun p hp => h2 p ((h.edges _).2 hp)⟩
  · rintro ⟨h1, h2⟩; exact ⟨(h.ids n).2 h1, fun p hp => h2 p ((h.edges _).1 hp)⟩

theorem tv_tidOK (h : R2A2.TV a b) (ha : a.edgeList.Nodup) (hb : b.edgeList.Nodup) (ht : TidOK a) :
    TidOK b where
  along := fun e hm ho => by
    rw [← h.tid, ← h.tid]
    exact ht.along e ((h.edges e).2 hm) (by rw [tv_outdeg h ha hb]; exact ho)
  heads := fun x y hx hy hne => by
    rw [← h.tid, ← h.tid]
    exact ht.heads x y ((tv_isHead h ha hb x).2 hx) ((tv_isHead h ha hb y).2 hy) hne

theorem tv_linOK (h : R2A2.TV a b) (hl : LinOK a) : LinOK b where
  has := fun n hn => by rw [← h.lin]; exact hl.has n ((h.ids n).2 hn)
  along := fun e hm => by rw [← h.lin, ← h.lin]; exact hl.along e ((h.edges e).2 hm)
  roots := fun x y hx hy hne => by
    rw [← h.lin, ← h.lin]
    exact hl.roots x y ((tv_isRoot h x).2 hx) ((tv_isRoot h y).2 hy) hne

end TV

/-- `BookOK` needs the maxima besides the observation -/
theorem teq_bookOK {a b : St} (h : R2A2.TEq a b) (hw : WF b) (hm : MaxOK b) (hb : BookOK a) :
    BookOK b where
  t_keys := hw.t2n.keys
  t_nodup := hw.t2n.nodup
  t_iff := fun id n => by
    rw [← h.view.ids, ← h.view.tid]
    exact (h.t2n id n).symm.trans (hb.t_iff id n)
  t_max := hm.t_max
  l_keys := hw.l2n.keys
  l_nodup := hw.l2n.nodup
  l_iff := fun hon id n => by
    rw [← h.view.ids, ← h.view.lin]
    exact (h.l2n id n).symm.trans (hb.l_iff (h.view.linOn.trans hon) id n)
  l_max := hm.l_max

theorem forest_congr_obs {s t : St} (h : ObsEq s t) (hs : WF s) (ht : WF t) (hf : Forest s) :
    Forest t :=
  tv_forest (obsF_tv ((obsEq_iff_obsF hs ht).mp h)) ht.ids ht.edges hf

theorem tidOK_congr_obs {s t : St} (h : ObsEq s t) (hs : WF s) (ht : WF t) (hf : TidOK s) :
    TidOK t :=
  tv_tidOK (obsF_tv ((obsEq_iff_obsF hs ht).mp h)) hs.edges ht.edges hf

theorem linOK_congr_obs {s t : St} (h : ObsEq s t) (hs : WF s) (ht : WF t) (hf : LinOK s) :
    LinOK t :=
  tv_linOK (obsF_tv ((obsEq_iff_obsF hs ht).mp h)) hf

theorem bookOK_congr_obs {s t : St} (h : ObsEq s t) (hs : WF s) (ht : WF t) (hm : MaxOK t)
    (hb : BookOK s) : BookOK t :=
  teq_bookOK (obsF_teq ((obsEq_iff_obsF hs ht).mp h)) ht hm hb

theorem valid_congr_obs {s t : St} (h : ObsEq s t) (hs : WF s) (ht : WF t) (hm : MaxOK t)
    (hv : Valid s) : Valid t :=
  ⟨forest_congr_obs h hs ht hv.forest, tidOK_congr_obs h hs ht hv.tid, linOK_congr_obs h hs ht hv.lin,
    bookOK_congr_obs h hs ht hm hv.book,
    ((reg_fields h.reg).2.2.2.2.2.2.1).symm.trans hv.linOn⟩

/-- `SegOK` reads node records only through (id, time): no well-formedness needed -/
theorem segOK_congr_obs {s t : St} (h : ObsEq s t) (hv : SegOK s) : SegOK t := by
  intro g hg
  obtain ⟨h1, h2⟩ := hv g (h.seg.trans hg)
  refine ⟨fun r hr => ?_, fun i hi hne => ?_⟩
  · obtain ⟨r', hr', ho⟩ := (h.nodes (obsNode r)).mpr ⟨r, hr, rfl⟩
    have e1 : r'.id = r.id := congrArg (·.1) ho
    have e2 : r'.time = r.time := congrArg (·.2.1) ho
    rw [← e1, ← e2]; exact h1 r' hr'
  · obtain ⟨r, hr, e1, e2⟩ := h2 i hi hne
    obtain ⟨r', hr', ho⟩ := (h.nodes (obsNode r)).mp ⟨r, hr, rfl⟩
    have e1' : r'.id = r.id := congrArg (·.1) ho
    have e2' : r'.time = r.time := congrArg (·.2.1) ho
    exact ⟨r', hr', e1'.trans e1, e2.trans e2'.symm⟩

theorem alook_of_obsAttrs {l : List (Key × Val)} {k : Key} {v : Val} (h : obsAttrs l k = v)
    (hv : v ≠ Val.none) : alook k l = some v := by
  unfold obsAttrs at h
  cases ha : alook k l with
  | none => rw [ha] at h; exact absurd h.symm hv
  | some w => rw [ha] at h; exact congrArg some h

theorem iouOf_ne_none (s : St) (e : Edge) : s.iouOf e ≠ Val.none := by
  unfold iouOf
  split
  · dsimp only
    split <;> intro h <;> cases h
  · intro h; cases h

/-- `MeasOK` stores `Val.none` for a node without pixels, which `ObsEq` identifies with "absent";
    under `SegOK` (every node has pixels) every stored measurement is a proper value and the
    invariant transfers -/
theorem measOK_congr_obs {s t : St} (h : ObsEq s t) (hs : WF s) (ht : WF t) (hseg : SegOK s)
    (hm : MeasOK s) : MeasOK t := by
  intro g hg
  have hg' : s.seg = some g := h.seg.trans hg
  obtain ⟨m1, m2⟩ := hm g hg'
  obtain ⟨q1, q2, q3, q4, q5, -, -, -⟩ := reg_fields h.reg
  have hF := (obsEq_iff_obsF hs ht).mp h
  refine ⟨fun k hk r hr => ?_, fun hact k hk er her => ?_⟩
  · obtain ⟨r', hr', ho⟩ := (h.nodes (obsNode r)).mpr ⟨r, hr, rfl⟩
    have e1 : r'.id = r.id := congrArg (·.1) ho
    have e2 : r'.time = r.time := congrArg (·.2.1) ho
    have e3 : obsAttrs r'.other = obsAttrs r.other := congrArg (·.2.2.2.2) ho
    have hne := (hseg g hg').1 r' hr'
    have := m1 k (q3 ▸ hk) r' hr'
    rw [if_neg hne] at this
    rw [e1, e2] at this hne
    rw [if_neg hne]
    refine alook_of_obsAttrs ?_ (by intro hc; cases hc)
    rw [← e3]; unfold obsAttrs; rw [this]; rfl
  · obtain ⟨er', her', ho⟩ := (h.edges (obsEdge er)).mpr ⟨er, her, rfl⟩
    have e1 : er'.e = er.e := congrArg (·.1) ho
    have e3 : obsAttrs er'.attrs = obsAttrs er.attrs := congrArg (·.2) ho
    have := m2 (q5.trans hact) k (q4.trans hk) er' her'
    rw [← iouOf_congr_obs h.seg hF.nodes, ← e1]
    refine alook_of_obsAttrs ?_ (iouOf_ne_none _ _)
    rw [← e3]; unfold obsAttrs; rw [this]; rfl

/-! ### the same, packaged for `E` -/

theorem forest_congrE {s t : St} (h : E s t) (ht : WF t) (hf : Forest t) : Forest s :=
  forest_congr_obs h.1.symm ht (h.wf_left ht) hf
theorem tidOK_congrE {s t : St} (h : E s t) (ht : WF t) (hf : TidOK t) : TidOK s :=
  tidOK_congr_obs h.1.symm ht (h.wf_left ht) hf
theorem linOK_congrE {s t : St} (h : E s t) (ht : WF t) (hf : LinOK t) : LinOK s :=
  linOK_congr_obs h.1.symm ht (h.wf_left ht) hf
theorem bookOK_congrE {s t : St} (h : E s t) (ht : WF t) (hb : BookOK t) : BookOK s :=
  bookOK_congr_obs h.1.symm ht (h.wf_left ht) (h.max_left (MaxOK.of_book ht.ids hb)) hb
theorem valid_congrE {s t : St} (h : E s t) (ht : WF t) (hv : Valid t) : Valid s :=
  valid_congr_obs h.1.symm ht (h.wf_left ht) (h.max_left (MaxOK.of_book ht.ids hv.book)) hv
theorem segOK_congrE {s t : St} (h : E s t) (hv : SegOK t) : SegOK s := segOK_congr_obs h.1.symm hv
theorem measOK_congrE {s t : St} (h : E s t) (ht : WF t) (hseg : SegOK t) (hm : MeasOK t) : MeasOK s :=
  measOK_congr_obs h.1.symm ht (h.wf_left ht) hseg hm

/-- the equivalence suggested in PROOF_TASKS_R3 (`Forest ∧ BookOK` together) follows from `E` on
    well-formed states -/
theorem E.forestBook_iff {s t : St} (h : E s t) (ht : WF t) :
    (Forest s ∧ BookOK s) ↔ (Forest t ∧ BookOK t) := by
  have hs := h.wf_left ht
  have h' : E t s := E_isEquiv.symm h
  exact ⟨fun ⟨a, b⟩ => ⟨forest_congrE h' hs a, bookOK_congrE h' hs b⟩,
    fun ⟨a, b⟩ => ⟨forest_congrE h ht a, bookOK_congrE h ht b⟩⟩

/-! ## §3 `MaxOK` through the primitives; transfer of laws from `ObsW` to `E` -/

theorem maxOK_of_BV {s s' : St} (h : PC.BV s s') (hm : MaxOK s) : MaxOK s' := by
  intro r' hr'
  have : PC.ncore r' ∈ s.nodes.map PC.ncore := h.core ▸ mem_map_of_mem hr'
  obtain ⟨r, hr, hc⟩ := mem_map.mp this
  have e1 : r.tid = r'.tid := congrArg (·.2.2.1) hc
  have e2 : r.lin = r'.lin := congrArg (·.2.2.2) hc
  rw [h.maxTid, h.maxLin, h.linOn, ← e1, ← e2]
  exact hm r hr

/-- same nodes, same lineage switch, maxima not smaller -/
theorem maxOK_mono {s s' : St} (hn : s'.nodes = s.nodes) (hl : s'.linOn = s.linOn)
    (h1 : s.maxTid ≤ s'.maxTid) (h2 : s.maxLin ≤ s'.maxLin) (hm : MaxOK s) : MaxOK s' := by
  intro r hr
  rw [hn] at hr
  obtain ⟨a, b⟩ := hm r hr
  exact ⟨Nat.le_trans a h1, fun hon l hl' => Nat.le_trans (b (hl ▸ hon) l hl') h2⟩

theorem trackOnDelete_proj (s : St) (r : NodeRec) :
    (s.trackOnDelete r).nodes = s.nodes ∧ (s.trackOnDelete r).linOn = s.linOn ∧
    (s.trackOnDelete r).maxTid = s.maxTid ∧ (s.trackOnDelete r).maxLin = s.maxLin := by
  rcases trackOnDelete_cases s r with ⟨l, _, _, e⟩ | ⟨_, e⟩ <;> rw [e] <;> exact ⟨rfl, rfl, rfl, rfl⟩

theorem trackOnAdd_proj (s : St) (r : NodeRec) :
    (s.trackOnAdd r).nodes = s.nodes ∧ (s.trackOnAdd r).linOn = s.linOn ∧
    s.maxTid ≤ (s.trackOnAdd r).maxTid ∧ s.maxLin ≤ (s.trackOnAdd r).maxLin ∧
    r.tid ≤ (s.trackOnAdd r).maxTid ∧
    (s.linOn = true → ∀ l, r.lin = some l → l ≤ (s.trackOnAdd r).maxLin) := by
  rcases trackOnAdd_cases s r with ⟨l, h1, h2, e⟩ | ⟨h1, e⟩
  · rw [e]
    refine ⟨rfl, rfl, ?_, ?_, ?_, ?_⟩
    · show s.maxTid ≤ (if r.tid > s.maxTid then r.tid else s.maxTid); split <;> omega
    · show s.maxLin ≤ (if l > s.maxLin then l else s.maxLin); split <;> omega
    · show r.tid ≤ (if r.tid > s.maxTid then r.tid else s.maxTid); split <;> omega
    · intro _ l' hl'
      rw [h2] at hl'; cases hl'
      show l ≤ (if l > s.maxLin then l else s.maxLin); split <;> omega
  · rw [e]
    refine ⟨rfl, rfl, ?_, Nat.le_refl _, ?_, ?_⟩
    · show s.maxTid ≤ (if r.tid > s.maxTid then r.tid else s.maxTid); split <;> omega
    · show r.tid ≤ (if r.tid > s.maxTid then r.tid else s.maxTid); split <;> omega
    · intro hon l' hl'; rw [h1 hon] at hl'; cases hl'

theorem maxOK_delNodeTail {s1 : St} (n : Node) (saved : NodeRec) (hm : MaxOK s1) :
    MaxOK (PC.delNodeTail s1 n saved) := by
  unfold PC.delNodeTail
  obtain ⟨h1, h2, h3, h4⟩ := trackOnDelete_proj (PC.delGraph s1 n) saved
  intro r hr
  rw [h1] at hr
  rw [h2, h3, h4]
  exact hm r (mem_filter.mp hr).1

theorem maxOK_addNodeTail {s1 : St} (r : NodeRec) (hm : MaxOK s1) : MaxOK (PC.addNodeTail s1 r) := by
  -- the node table after `graph.add_node`
  let s2 : St := if s1.hasNode r.id then s1.updNode r.id (fun old =>
                  { r with other := amerge r.other old.other })
              else { s1 with nodes := s1.nodes ++ [r] }
  have hs2 : ∀ x ∈ s2.nodes, (x ∈ s1.nodes ∧ x.id ≠ r.id) ∨ (x.id = r.id ∧ x.tid = r.tid ∧ x.lin = r.lin) := by
    intro x hx
    by_cases hh : s1.hasNode r.id = true
    · have e : s2 = s1.updNode r.id (fun old => { r with other := amerge r.other old.other }) := by
        show (if s1.hasNode r.id then _ else _) = _
        rw [if_pos hh]
      rw [e] at hx
      obtain ⟨y, hy, hxy⟩ := mem_map.mp hx
      by_cases hid : y.id = r.id
      · have : (y.id == r.id) = true := by simpa using hid
        rw [this] at hxy
        right; rw [← hxy]; exact ⟨rfl, rfl, rfl⟩
      · have : (y.id == r.id) = false := by simpa using hid
        rw [this] at hxy
        left; rw [← hxy]; exact ⟨hy, hid⟩
    · have e : s2 = { s1 with nodes := s1.nodes ++ [r] } := by
        show (if s1.hasNode r.id then _ else _) = _
        rw [if_neg hh]
      rw [e] at hx
      rcases mem_append.mp hx with h | h
      · left
        refine ⟨h, fun hc => hh ((PC.hasNode_iff s1 r.id).mpr ?_)⟩
        rw [← hc]; exact mem_map_of_mem h
      · right; rw [mem_singleton.mp h]; exact ⟨rfl, rfl, rfl⟩
  have hmem2 : r.id ∈ s2.ids := by
    by_cases hh : s1.hasNode r.id = true
    · have e : s2 = s1.updNode r.id (fun old => { r with other := amerge r.other old.other }) := by
        show (if s1.hasNode r.id then _ else _) = _
        rw [if_pos hh]
      rw [e]
      obtain ⟨y, hy, hyid⟩ := mem_map.mp ((PC.hasNode_iff s1 r.id).mp hh)
      refine mem_map.mpr ⟨_, mem_map_of_mem (f := fun x => if x.id == r.id then
        ({ r with other := amerge r.other x.other } : NodeRec) else x) hy, ?_⟩
      have : (y.id == r.id) = true := by simpa using hyid
      simp only [this, if_true]
    · have e : s2 = { s1 with nodes := s1.nodes ++ [r] } := by
        show (if s1.hasNode r.id then _ else _) = _
        rw [if_neg hh]
      rw [e]; show r.id ∈ (s1.nodes ++ [r]).map (·.id)
      simp
  have hfr2 : s2.linOn = s1.linOn ∧ s2.maxTid = s1.maxTid ∧ s2.maxLin = s1.maxLin := by
    show (if s1.hasNode r.id then _ else _ : St).linOn = _ ∧ (if s1.hasNode r.id then _ else _ : St).maxTid = _ ∧
      (if s1.hasNode r.id then _ else _ : St).maxLin = _
    split <;> exact ⟨rfl, rfl, rfl⟩
  have hbv := PC.BV_rpUpdate s2 r.id
  have hmem3 : r.id ∈ (s2.rpUpdate r.id).ids := by rw [hbv.ids]; exact hmem2
  obtain ⟨r', hr'⟩ := Option.isSome_iff_exists.mp ((PC.findNode_isSome_iff _ _).mpr hmem3)
  have hres : PC.addNodeTail s1 r = (s2.rpUpdate r.id).trackOnAdd r' := by
    show (match (s2.rpUpdate r.id).findNode r.id with
      | some r' => (s2.rpUpdate r.id).trackOnAdd r'
      | none => s2.rpUpdate r.id) = _
    rw [hr']
  -- every record of `s3` comes from `s2` up to the free-form attributes
  have hs3 : ∀ x ∈ (s2.rpUpdate r.id).nodes, ∃ y ∈ s2.nodes, PC.ncore y = PC.ncore x := by
    intro x hx
    have : PC.ncore x ∈ s2.nodes.map PC.ncore := hbv.core ▸ mem_map_of_mem hx
    obtain ⟨y, hy, hc⟩ := mem_map.mp this
    exact ⟨y, hy, hc⟩
  obtain ⟨hr'm, hr'id⟩ := PC.findNode_some_mem hr'
  have hr'core : r'.tid = r.tid ∧ r'.lin = r.lin := by
    obtain ⟨y, hy, hc⟩ := hs3 r' hr'm
    have e0 : y.id = r'.id := congrArg (·.1) hc
    have e1 : y.tid = r'.tid := congrArg (·.2.2.1) hc
    have e2 : y.lin = r'.lin := congrArg (·.2.2.2) hc
    rcases hs2 y hy with ⟨_, hne⟩ | ⟨_, h1, h2⟩
    · exact absurd (e0.trans hr'id) hne
    · exact ⟨e1.symm.trans h1, e2.symm.trans h2⟩
  obtain ⟨p1, p2, p3, p4, p5, p6⟩ := trackOnAdd_proj (s2.rpUpdate r.id) r'
  rw [hres]
  intro x hx
  rw [p1] at hx
  obtain ⟨y, hy, hc⟩ := hs3 x hx
  have e1 : y.tid = x.tid := congrArg (·.2.2.1) hc
  have e2 : y.lin = x.lin := congrArg (·.2.2.2) hc
  rw [← e1, ← e2, p2]
  rcases hs2 y hy with ⟨hy1, _⟩ | ⟨_, h1, h2⟩
  · obtain ⟨a, b⟩ := hm y hy1
    refine ⟨Nat.le_trans a (by rw [← hfr2.2.1, ← hbv.maxTid]; exact p3), fun hon l hl => ?_⟩
    rw [hbv.linOn, hfr2.1] at hon
    exact Nat.le_trans (b hon l hl) (by rw [← hfr2.2.2, ← hbv.maxLin]; exact p4)
  · rw [h1, h2, ← hr'core.1, ← hr'core.2]
    exact ⟨p5, p6⟩

theorem maxOK_pAddNode {s s' : St} {r : NodeRec} {px : Option (List Pix)} {rec : PrimRec}
    (hm : MaxOK s) (h : s.pAddNode r px = .ok (s', rec)) : MaxOK s' ∧ rec = .addNode r px := by
  rw [PC.pAddNode_unfold] at h
  split at h
  · cases h
  · split at h
    · cases h
    · simp only [Except.ok.injEq, Prod.mk.injEq] at h
      rw [← h.1, ← h.2]
      exact ⟨maxOK_addNodeTail r (maxOK_of_BV (PC.BV_paintNew s r.id px) hm), rfl⟩

theorem maxOK_pDelNode {s s' : St} {n : Node} {px : Option (List Pix)} {rec : PrimRec}
    (hm : MaxOK s) (h : s.pDelNode n px = .ok (s', rec)) : MaxOK s' ∧ ∃ sv px', rec = .delNode sv px' := by
  rw [PC.pDelNode_unfold] at h
  split at h
  · cases h
  · simp only [Except.ok.injEq, Prod.mk.injEq] at h
    rw [← h.1, ← h.2]
    exact ⟨maxOK_delNodeTail n _ (maxOK_of_BV (PC.BV_paintNew s 0 _) hm), _, _, rfl⟩

theorem pAddEdge_rec {s s' : St} {e : Edge} {attrs : List (Key × Val)} {rec : PrimRec}
    (h : s.pAddEdge e attrs = .ok (s', rec)) : rec = .addEdge e attrs := by
  unfold pAddEdge at h
  split at h
  · cases h
  · simp only [Except.ok.injEq, Prod.mk.injEq] at h; exact h.2.symm

theorem pDelEdge_rec {s s' : St} {e : Edge} {rec : PrimRec}
    (h : s.pDelEdge e = .ok (s', rec)) : ∃ sv, rec = .delEdge e sv := by
  unfold pDelEdge at h
  split at h
  · cases h
  · simp only [Except.ok.injEq, Prod.mk.injEq] at h; exact ⟨_, h.2.symm⟩

theorem pUpdSeg_rec {s s' : St} {n : Node} {px : List Pix} {b : Bool} {rec : PrimRec}
    (h : s.pUpdSeg n px b = .ok (s', rec)) : rec = .updSeg n px b := by
  unfold pUpdSeg at h
  split at h
  · cases h
  · split at h
    · cases h
    · simp only [Except.ok.injEq, Prod.mk.injEq] at h; exact h.2.symm

theorem pUpdAttrs_rec {s s' : St} {n : Node} {attrs : List (Key × Val)} {rec : PrimRec}
    (h : s.pUpdAttrs n attrs = .ok (s', rec)) : ∃ prev, rec = .updAttrs n prev attrs := by
  unfold pUpdAttrs at h
  split at h
  · cases h
  · split at h
    · cases h
    · simp only [Except.ok.injEq, Prod.mk.injEq] at h; exact ⟨_, h.2.symm⟩

/-- every record except `UpdateTrackIDs` -/
def NoTid : PrimRec → Prop
  | .updTid _ _ _ _ _ => False
  | _ => True

/-- inverting a record other than `UpdateTrackIDs` keeps the maxima sound — unconditionally -/
theorem maxOK_invPrim {a a' : St} {r r' : PrimRec} (hm : MaxOK a) (hr : NoTid r)
    (h : a.invPrim r = .ok (a', r')) : MaxOK a' ∧ NoTid r' := by
  cases r with
  | addNode rec px =>
    obtain ⟨h1, sv, px', h2⟩ := maxOK_pDelNode hm (by simpa only [invPrim] using h)
    exact ⟨h1, h2 ▸ trivial⟩
  | delNode sv px =>
    obtain ⟨h1, h2⟩ := maxOK_pAddNode hm (by simpa only [invPrim] using h)
    exact ⟨h1, h2 ▸ trivial⟩
  | addEdge e at_ =>
    have h' : a.pDelEdge e = .ok (a', r') := by simpa only [invPrim] using h
    obtain ⟨sv, h2⟩ := pDelEdge_rec h'
    exact ⟨maxOK_of_BV (PC.pDelEdge_BV h') hm, h2 ▸ trivial⟩
  | delEdge e sv =>
    have h' : a.pAddEdge e sv = .ok (a', r') := by simpa only [invPrim] using h
    exact ⟨maxOK_of_BV (PC.pAddEdge_BV h') hm, pAddEdge_rec h' ▸ trivial⟩
  | updTid _ _ _ _ _ => exact absurd hr (by intro h; exact h)
  | updSeg n px b =>
    have h' : a.pUpdSeg n px (!b) = .ok (a', r') := by simpa only [invPrim] using h
    exact ⟨maxOK_of_BV (PC.pUpdSeg_BV h') hm, pUpdSeg_rec h' ▸ trivial⟩
  | updAttrs n prev new =>
    have h' : a.pUpdAttrs n prev = .ok (a', r') := by simpa only [invPrim] using h
    obtain ⟨p, h2⟩ := pUpdAttrs_rec h'
    exact ⟨maxOK_of_BV (PC.pUpdAttrs_BV h') hm, h2 ▸ trivial⟩

theorem InvLawN.toE : ∀ (k : Nat) {s s₁ : St} {r : PrimRec}, InvLawN ObsW k s r s₁ → NoTid r →
    MaxOK s → MaxOK s₁ → InvLawN E k s r s₁
  | 0, _, _, _, _, _, _, _ => trivial
  | k + 1, s, s₁, r, h, hr, ms, ms₁ => by
    intro s₁' he
    obtain ⟨s₂, r', hinv, he2, hk⟩ := h s₁' he.toObsW
    obtain ⟨m2, hr'⟩ := maxOK_invPrim (he.max_left ms₁) hr hinv
    exact ⟨s₂, r', hinv, E.of_obsW he2 m2 ms, InvLawN.toE k hk hr' ms₁ ms⟩

/-- **transfer**: a law over `ObsW` for a record other than `UpdateTrackIDs`, between states
    whose maxima are sound, is a law over the common equivalence `E` -/
theorem InvLaw.toE {s s₁ : St} {r : PrimRec} (h : InvLaw ObsW s r s₁) (hr : NoTid r)
    (ms : MaxOK s) (ms₁ : MaxOK s₁) : InvLaw E s r s₁ :=
  fun k => InvLawN.toE k (h k) hr ms ms₁

/-! ## §4 `AddEdge` / `DeleteEdge` -/

theorem nodup_snoc {α : Type} {l : List α} {x : α} (h : l.Nodup) (hx : x ∉ l) : (l ++ [x]).Nodup := by
  rw [nodup_append]
  refine ⟨h, by simp, fun a ha b hb hc => ?_⟩
  rw [mem_singleton.mp hb] at hc
  exact hx (hc ▸ ha)

theorem find_filter_ne_edge (l : List EdgeRec) (e e' : Edge) :
    (l.filter (·.e != e)).find? (·.e == e') = if e' = e then none else l.find? (·.e == e') := by
  induction l with
  | nil => simp
  | cons r rs ih =>
    rw [filter_cons]
    by_cases h1 : r.e = e
    · have hb : (r.e != e) = false := by simp [h1]
      rw [hb]
      simp only [Bool.false_eq_true, if_false]
      rw [ih, find?_cons]
      by_cases h2 : e' = e
      · simp only [h2, if_true]
      · have : (r.e == e') = false := by simpa using (fun hc => h2 (hc.symm.trans h1))
        simp only [h2, if_false, this]
    · have hb : (r.e != e) = true := by simp [h1]
      rw [hb]
      simp only [if_true]
      rw [find?_cons, find?_cons, ih]
      by_cases h3 : r.e = e'
      · have hb3 : (r.e == e') = true := by simpa using h3
        have : ¬ e' = e := fun hc => h1 (h3.trans hc)
        simp only [hb3, this, if_false]
      · have hb3 : (r.e == e') = false := by simpa using h3
        simp only [hb3]

theorem find_append_new_edge (l : List EdgeRec) (x : EdgeRec) (e' : Edge) (hx : x.e ∉ l.map (·.e)) :
    (l ++ [x]).find? (·.e == e') = if e' = x.e then some x else l.find? (·.e == e') := by
  rw [find?_append]
  by_cases h : e' = x.e
  · subst h
    have : l.find? (·.e == x.e) = none := by
      rw [find?_eq_none]; intro r hr hc
      exact hx (mem_map.mpr ⟨r, hr, by simpa using hc⟩)
    rw [this]; simp
  · have hb : (x.e == e') = false := by simpa using (fun hc => h hc.symm)
    simp only [h, if_false, find?_cons, hb, find?_nil, Option.or_none]

/-- everything but the edge table agrees observationally -/
abbrev RestEqE (s s₁ : St) : Prop := ObsF { s with edges := s₁.edges } s₁

/-- **the edge relation**: `s₁` is `s` plus the edge `e`, whose attributes read `A`; symmetric
    description of AddEdge (from `s` to `s₁`) and DeleteEdge (from `s₁` to `s`).
    `registered`: everything visible on the edge is a registered feature (only those are saved by
    DeleteEdge); `cur`: an active IoU on the edge is current (it is recomputed, not saved). -/
structure EdgeStep (s : St) (e : Edge) (A : Key → Val) (s₁ : St) : Prop where
  wf : WF s
  wf₁ : WF s₁
  src : e.1 ∈ s.ids
  dst : e.2 ∈ s.ids
  absent : e ∉ s.edgeList
  present : eobs s₁ e = some (e, A)
  oth : ∀ e', e' ≠ e → eobs s₁ e' = eobs s e'
  rest : RestEqE s s₁
  registered : ∀ k, A k ≠ Val.none → k ∈ s.regEdge
  cur : iouW s e A = A

theorem wf_setEdges {s : St} (hw : WF s) {es : List EdgeRec} (h1 : (es.map (·.e)).Nodup)
    (h2 : ∀ r ∈ es, (r.attrs.map (·.1)).Nodup) : WF (s.setEdges es) :=
  ⟨hw.ids, h1, hw.nkeys, h2, hw.t2n, hw.l2n⟩

/-- DeleteEdge from anywhere in the class of the state that has the edge -/
theorem edge_del_step {s s₁ : St} {e : Edge} {A : Key → Val} (h : EdgeStep s e A s₁) {s₁' : St}
    (he : ObsW s₁' s₁) :
    ∃ s₂ saved, s₁'.pDelEdge e = .ok (s₂, .delEdge e saved) ∧ ObsW s₂ s ∧
      (saved.map (·.1)).Nodup ∧ obsAttrs saved = A := by
  have hF := he.obsF h.wf₁
  have hw' := he.wf_left h.wf₁
  have hpres : eobs s₁' e = some (e, A) := (hF.edges e).trans h.present
  unfold eobs at hpres
  cases hf : s₁'.findEdge e with
  | none => rw [hf] at hpres; cases hpres
  | some r' =>
    rw [hf, Option.map_some] at hpres
    have hoA : obsAttrs r'.attrs = A := congrArg (·.2) (Option.some.inj hpres)
    have hr'm : r' ∈ s₁'.edges := (findEdge_some hf).1
    have hkeys := hw'.ekeys r' hr'm
    have hreg : s₁'.regEdge = s.regEdge :=
      (reg_fields (hF.reg.trans h.rest.reg.symm)).2.1
    refine ⟨_, _, pDelEdge_eq hf, ?_, hkeys.sublist (List.Sublist.map _ List.filter_sublist), ?_⟩
    · refine ObsW.of_obsF ?_ (wf_setEdges hw' (hw'.edges.sublist (List.Sublist.map _ List.filter_sublist))
        (fun r hr => hw'.ekeys r (mem_filter.mp hr).1)) h.wf
      refine ⟨fun n => (hF.nodes n).trans (h.rest.nodes n).symm, fun e' => ?_,
        hF.seg.trans h.rest.seg.symm, fun a b => (hF.t2n a b).trans (h.rest.t2n a b).symm,
        fun a b => (hF.l2n a b).trans (h.rest.l2n a b).symm, hF.reg.trans h.rest.reg.symm⟩
      show ((s₁'.edges.filter (·.e != e)).find? (·.e == e')).map obsEdge = eobs s e'
      rw [find_filter_ne_edge]
      by_cases hee : e' = e
      · subst hee
        simp only [if_true, Option.map_none]
        cases hs : eobs s e' with
        | none => rfl
        | some o => exact absurd ((eobs_isSome_iff s e').mp (by rw [hs]; rfl)) h.absent
      · simp only [hee, if_false]
        exact (hF.edges e').trans (h.oth e' hee)
    · funext k
      rw [obsAttrs_saved (fun k => s₁'.regEdge.contains k) r'.attrs hkeys k, hoA]
      split
      · rfl
      · rename_i hc
        by_cases hv : A k = Val.none
        · exact hv.symm
        · exact absurd (by rw [hreg]; simpa using h.registered k hv) hc

/-- AddEdge from anywhere in the class of the state that lacks the edge -/
theorem edge_add_step {s s₁ : St} {e : Edge} {A : Key → Val} (h : EdgeStep s e A s₁) {s' : St}
    (he : ObsW s' s) {attrs : List (Key × Val)} (hk : (attrs.map (·.1)).Nodup)
    (ha : iouW s e (obsAttrs attrs) = A) :
    ∃ s₂, s'.pAddEdge e attrs = .ok (s₂, .addEdge e attrs) ∧ ObsW s₂ s₁ := by
  have hF := he.obsF h.wf
  have hw' := he.wf_left h.wf
  have h1 : s'.hasNode e.1 = true := (PC.hasNode_iff _ _).mpr ((mem_ids_congr hF.nodes _).mpr h.src)
  have h2 : s'.hasNode e.2 = true := (PC.hasNode_iff _ _).mpr ((mem_ids_congr hF.nodes _).mpr h.dst)
  have habs : e ∉ s'.edgeList := fun hc => h.absent ((edgeList_congr hF.edges e).mp hc)
  have hne : s'.hasEdge e = false := by
    rw [hasEdge_false_iff]
    intro r hr hc
    exact habs (mem_map.mpr ⟨r, hr, hc⟩)
  have hiw : iouW s' e = iouW s e := by
    obtain ⟨-, -, -, q4, q5, -, -, -⟩ := reg_fields hF.reg
    exact iouW_congr q4 q5 hF.seg (iouOf_congr_obs hF.seg hF.nodes) e
  refine ⟨_, pAddEdge_new attrs h1 h2 hne, ?_⟩
  refine ObsW.of_obsF ?_ (wf_setEdges hw' ?_ ?_) h.wf₁
  · refine ⟨fun n => (hF.nodes n).trans (h.rest.nodes n), fun e' => ?_,
      hF.seg.trans h.rest.seg, fun a b => (hF.t2n a b).trans (h.rest.t2n a b),
      fun a b => (hF.l2n a b).trans (h.rest.l2n a b), hF.reg.trans h.rest.reg⟩
    show ((s'.edges ++ [({ e := e, attrs := iouF s' e attrs } : EdgeRec)]).find? (·.e == e')).map obsEdge
      = eobs s₁ e'
    rw [find_append_new_edge _ _ _ (by exact habs)]
    by_cases hee : e' = e
    · subst hee
      simp only [if_true, Option.map_some]
      rw [h.present]
      show some (e', obsAttrs (iouF s' e' attrs)) = _
      rw [obsAttrs_iouF, hiw, ha]
    · have : ¬ e' = ({ e := e, attrs := iouF s' e attrs } : EdgeRec).e := hee
      simp only [this, if_false]
      exact ((hF.edges e').trans (h.oth e' hee).symm)
  · show ((s'.edges ++ [({ e := e, attrs := iouF s' e attrs } : EdgeRec)]).map (·.e)).Nodup
    rw [map_append, map_cons, map_nil]
    exact nodup_snoc hw'.edges habs
  · intro r hr
    rcases mem_append.mp hr with hr | hr
    · exact hw'.ekeys r hr
    · rw [mem_singleton.mp hr]; exact nodup_keys_iouF s' e hk

/-- closed-under-inversion predicate for AddEdge / DeleteEdge records -/
def GoodEdge (s : St) (r : PrimRec) (s₁ : St) : Prop :=
  (∃ e attrs A, r = .addEdge e attrs ∧ EdgeStep s e A s₁ ∧ (attrs.map (·.1)).Nodup ∧
      iouW s e (obsAttrs attrs) = A) ∨
  (∃ e saved A, r = .delEdge e saved ∧ EdgeStep s₁ e A s ∧ (saved.map (·.1)).Nodup ∧
      obsAttrs saved = A)

theorem goodEdge_closed (s : St) (r : PrimRec) (s₁ : St) (h : GoodEdge s r s₁) (s₁' : St)
    (he : ObsW s₁' s₁) : ∃ s₂ r', s₁'.invPrim r = .ok (s₂, r') ∧ ObsW s₂ s ∧ GoodEdge s₁ r' s := by
  rcases h with ⟨e, attrs, A, rfl, hS, _, _⟩ | ⟨e, saved, A, rfl, hS, hk, ho⟩
  · obtain ⟨s₂, saved, h1, h2, h3, h4⟩ := edge_del_step hS he
    exact ⟨s₂, _, h1, h2, Or.inr ⟨e, saved, A, rfl, hS, h3, h4⟩⟩
  · have ha : iouW s₁ e (obsAttrs saved) = A := by rw [ho]; exact hS.cur
    obtain ⟨s₂, h1, h2⟩ := edge_add_step hS he hk ha
    exact ⟨s₂, _, h1, h2, Or.inl ⟨e, saved, A, rfl, hS, hk, ha⟩⟩

/-- preconditions of a primitive AddEdge (C01): the edge is new, its attribute dictionary has
    distinct keys, and everything that will be visible on it (the given attributes and an active
    IoU) is a registered edge feature -/
structure AddEdgePre (s : St) (e : Edge) (attrs : List (Key × Val)) : Prop where
  wf : WF s
  fresh : e ∉ s.edgeList
  keys : (attrs.map (·.1)).Nodup
  registered : ∀ k, iouW s e (obsAttrs attrs) k ≠ Val.none → k ∈ s.regEdge

theorem pAddEdge_edgeStep {s s₁ : St} {e : Edge} {attrs : List (Key × Val)} {r : PrimRec}
    (hp : AddEdgePre s e attrs) (h : s.pAddEdge e attrs = .ok (s₁, r)) :
    r = .addEdge e attrs ∧ EdgeStep s e (iouW s e (obsAttrs attrs)) s₁ := by
  have hn : s.hasNode e.1 = true ∧ s.hasNode e.2 = true := by
    cases h1 : s.hasNode e.1 <;> cases h2 : s.hasNode e.2 <;>
      first
      | exact ⟨rfl, rfl⟩
      | (rw [pAddEdge_fail attrs (by simp [h1, h2])] at h; cases h)
  have hne : s.hasEdge e = false := by
    rw [hasEdge_false_iff]
    intro r hr hc
    exact hp.fresh (mem_map.mpr ⟨r, hr, hc⟩)
  rw [pAddEdge_new attrs hn.1 hn.2 hne] at h
  simp only [Except.ok.injEq, Prod.mk.injEq] at h
  obtain ⟨h1, h2⟩ := h
  subst h1; subst h2
  have hw₁ : WF (s.setEdges (s.edges ++ [({ e := e, attrs := iouF s e attrs } : EdgeRec)])) := by
    refine wf_setEdges hp.wf ?_ ?_
    · show ((s.edges ++ [({ e := e, attrs := iouF s e attrs } : EdgeRec)]).map (·.e)).Nodup
      rw [map_append, map_cons, map_nil]
      exact nodup_snoc hp.wf.edges hp.fresh
    · intro r hr
      rcases mem_append.mp hr with hr | hr
      · exact hp.wf.ekeys r hr
      · rw [mem_singleton.mp hr]; exact nodup_keys_iouF s e hp.keys
  refine ⟨rfl, hp.wf, hw₁, (PC.hasNode_iff _ _).mp hn.1, (PC.hasNode_iff _ _).mp hn.2, hp.fresh, ?_, ?_,
    ObsF.refl _, hp.registered, iouW_idem s e _⟩
  · show ((s.edges ++ [({ e := e, attrs := iouF s e attrs } : EdgeRec)]).find? (·.e == e)).map obsEdge = _
    rw [find_append_new_edge _ _ _ (by exact hp.fresh)]
    simp only [if_true, Option.map_some]
    show some (e, obsAttrs (iouF s e attrs)) = _
    rw [obsAttrs_iouF]
  · intro e' hee
    show ((s.edges ++ [({ e := e, attrs := iouF s e attrs } : EdgeRec)]).find? (·.e == e')).map obsEdge = _
    rw [find_append_new_edge _ _ _ (by exact hp.fresh)]
    have : ¬ e' = ({ e := e, attrs := iouF s e attrs } : EdgeRec).e := hee
    simp only [this, if_false]
    rfl

/-- preconditions of a primitive DeleteEdge (C01): end points present, everything visible on the
    edge is a registered feature, an active IoU on it is current -/
structure DelEdgePre (s : St) (e : Edge) : Prop where
  wf : WF s
  src : e.1 ∈ s.ids
  dst : e.2 ∈ s.ids
  registered : ∀ r, s.findEdge e = some r → ∀ k, obsAttrs r.attrs k ≠ Val.none → k ∈ s.regEdge
  cur : ∀ r, s.findEdge e = some r → iouW s e (obsAttrs r.attrs) = obsAttrs r.attrs

theorem pDelEdge_edgeStep {s s₁ : St} {e : Edge} {r : PrimRec} (hp : DelEdgePre s e)
    (h : s.pDelEdge e = .ok (s₁, r)) :
    ∃ saved A, r = .delEdge e saved ∧ EdgeStep s₁ e A s ∧ (saved.map (·.1)).Nodup ∧ obsAttrs saved = A := by
  cases hf : s.findEdge e with
  | none => unfold pDelEdge at h; rw [hf] at h; cases h
  | some r0 =>
    rw [pDelEdge_eq hf] at h
    simp only [Except.ok.injEq, Prod.mk.injEq] at h
    obtain ⟨h1, h2⟩ := h
    subst h1; subst h2
    have hr0 := findEdge_some hf
    have hkeys := hp.wf.ekeys r0 hr0.1
    have hw₁ : WF (s.setEdges (s.edges.filter (·.e != e))) :=
      wf_setEdges hp.wf (hp.wf.edges.sublist (List.Sublist.map _ List.filter_sublist))
        (fun r hr => hp.wf.ekeys r (mem_filter.mp hr).1)
    refine ⟨_, obsAttrs r0.attrs, rfl, ⟨hw₁, hp.wf, hp.src, hp.dst, ?_, ?_, ?_, ?_, hp.registered r0 hf,
      hp.cur r0 hf⟩, hkeys.sublist (List.Sublist.map _ List.filter_sublist), ?_⟩
    · intro hc
      obtain ⟨x, hx, hxe⟩ := mem_map.mp hc
      have := (mem_filter.mp hx).2
      simp [hxe] at this
    · unfold eobs; rw [hf, Option.map_some]; unfold obsEdge; rw [hr0.2]
    · intro e' hee
      show _ = ((s.edges.filter (·.e != e)).find? (·.e == e')).map obsEdge
      rw [find_filter_ne_edge]
      simp only [hee, if_false]
      rfl
    · exact ObsF.refl _
    · funext k
      rw [obsAttrs_saved (fun k => s.regEdge.contains k) r0.attrs hkeys k]
      split
      · rfl
      · rename_i hc
        by_cases hv : obsAttrs r0.attrs k = Val.none
        · exact hv.symm
        · exact absurd (by simpa using hp.registered r0 hf k hv) hc

theorem invLaw_addEdge_obsW {s s₁ : St} {e : Edge} {attrs : List (Key × Val)} {r : PrimRec}
    (hp : AddEdgePre s e attrs) (h : s.pAddEdge e attrs = .ok (s₁, r)) : InvLaw ObsW s r s₁ := by
  obtain ⟨hr, hS⟩ := pAddEdge_edgeStep hp h
  exact InvLaw.of_closed GoodEdge goodEdge_closed (Or.inl ⟨e, attrs, _, hr, hS, hp.keys, rfl⟩)

theorem invLaw_delEdge_obsW {s s₁ : St} {e : Edge} {r : PrimRec}
    (hp : DelEdgePre s e) (h : s.pDelEdge e = .ok (s₁, r)) : InvLaw ObsW s r s₁ := by
  obtain ⟨saved, A, hr, hS, hk, ho⟩ := pDelEdge_edgeStep hp h
  exact InvLaw.of_closed GoodEdge goodEdge_closed (Or.inr ⟨e, saved, A, hr, hS, hk, ho⟩)

/-- `iouW` fixes an attribute function iff the active IoU entry is current -/
theorem iouW_fix {s : St} {e : Edge} {f : Key → Val}
    (h : ∀ k, s.iouKey = some k → s.iouActive = true → s.seg.isSome = true → f k = s.iouOf e) :
    iouW s e f = f := by
  unfold iouW
  cases hk : s.iouKey with
  | none => rfl
  | some k =>
    simp only
    split
    · rename_i hc
      simp only [Bool.and_eq_true] at hc
      funext k'
      by_cases hkk : k' = k
      · subst hkk; simp only [if_true]; exact (h k' hk hc.1 hc.2).symm
      · simp only [hkk, if_false]
    · rfl

/-- `DelEdgePre` from the record-level hypotheses of `C01_prim_delEdge` (weakened: a `None` entry
    need not be registered) -/
theorem DelEdgePre.of_records {s : St} {e : Edge} (hw : WF s) (h1 : e.1 ∈ s.ids) (h2 : e.2 ∈ s.ids)
    (hreg : ∀ r ∈ s.edges, r.e = e → ∀ kv ∈ r.attrs, kv.2 ≠ Val.none → kv.1 ∈ s.regEdge)
    (hiou : ∀ k, s.iouKey = some k → s.iouActive = true → s.seg.isSome = true →
      ∀ r ∈ s.edges, r.e = e → alook k r.attrs = some (s.iouOf e)) : DelEdgePre s e := by
  refine ⟨hw, h1, h2, fun r hf k hk => ?_, fun r hf => iouW_fix (fun k a b c => ?_)⟩
  · obtain ⟨hm, he⟩ := findEdge_some hf
    unfold obsAttrs at hk
    cases ha : alook k r.attrs with
    | none => rw [ha] at hk; exact absurd rfl hk
    | some v =>
      rw [ha] at hk
      exact hreg r hm he (k, v) (alook_mem ha) hk
  · obtain ⟨hm, he⟩ := findEdge_some hf
    unfold obsAttrs; rw [hiou k a b c r hm he]; rfl

/-! ## §5 `UpdateTrackIDs` over `E` -/

/-- an observed node without its track / lineage id -/
def stripO (o : NodeObs) : Node × Nat × (Key → Val) := (o.1, o.2.1, o.2.2.2.2)

/-- observation of a stripped record -/
def obsStrip (c : Node × Nat × List (Key × Val)) : Node × Nat × (Key → Val) := (c.1, c.2.1, obsAttrs c.2.2)

theorem nobs_stripO (s : St) (n : Node) : (nobs s n).map stripO = (R2A2.stripOf s n).map obsStrip := by
  unfold nobs R2A2.stripOf
  rw [Option.map_map, Option.map_map]
  rfl

/-- an observed node is determined by its stripped observation, track id and lineage id -/
theorem nobs_eq_of {a b : St} {n : Node} (h1 : (nobs a n).map stripO = (nobs b n).map stripO)
    (h2 : a.tidOf n = b.tidOf n) (h3 : a.linOf n = b.linOf n) : nobs a n = nobs b n := by
  rw [tidOf_eq_nobs, tidOf_eq_nobs] at h2
  rw [linOf_eq_nobs, linOf_eq_nobs] at h3
  cases ha : nobs a n with
  | none =>
    cases hb : nobs b n with
    | none => rfl
    | some ob => rw [ha, hb] at h1; cases h1
  | some oa =>
    cases hb : nobs b n with
    | none => rw [ha, hb] at h1; cases h1
    | some ob =>
      rw [ha, hb] at h1 h2 h3
      obtain ⟨i, t, td, l, A⟩ := oa
      obtain ⟨i', t', td', l', A'⟩ := ob
      simp only [Option.map_some, Option.some.injEq, stripO, Prod.mk.injEq, Option.bind_some] at h1 h2 h3
      obtain ⟨e1, e2, e3⟩ := h1
      subst e1; subst e2; subst e3; subst h2; subst h3
      rfl

/-- what `UpdateTrackIDs` leaves alone, read observationally: per node id the time and every other
    attribute, the observed edges, the array, the registry -/
structure FrameO (a b : St) : Prop where
  nodes : ∀ n, (nobs b n).map stripO = (nobs a n).map stripO
  edges : ∀ e, eobs b e = eobs a e
  seg : b.seg = a.seg
  reg : b.reg = a.reg

theorem FrameO.symm {a b : St} (h : FrameO a b) : FrameO b a :=
  ⟨fun n => (h.nodes n).symm, fun e => (h.edges e).symm, h.seg.symm, h.reg.symm⟩

theorem FrameO.trans {a b c : St} (h : FrameO a b) (g : FrameO b c) : FrameO a c :=
  ⟨fun n => (g.nodes n).trans (h.nodes n), fun e => (g.edges e).trans (h.edges e), g.seg.trans h.seg,
    g.reg.trans h.reg⟩

theorem FrameO.of_frame {a b : St} (h : R2A2.Frame a b) : FrameO a b :=
  ⟨fun n => by rw [nobs_stripO, nobs_stripO, R2A2.stripOf_of_nstrip h.nodes],
    eobs_of_edges h.edges, h.seg, reg_of_cfg h.cfg⟩

theorem FrameO.of_obsF {a b : St} (h : ObsF a b) : FrameO a b :=
  ⟨fun n => by rw [h.nodes], fun e => (h.edges e).symm, h.seg.symm, h.reg.symm⟩

/-- `WF` across a walk frame: node table the same up to track / lineage ids, edge table the same,
    bookkeeping consistent -/
theorem wf_of_walkFrame {a b : St} (hw : WF a) (hfr : R2A2.Frame a b) (hb : BookOK b) : WF b := by
  have hids : b.ids = a.ids := by
    have := congrArg (List.map (·.1)) hfr.nodes
    unfold R2A2.nstrip at this
    rw [map_map, map_map] at this
    exact this
  refine ⟨hids ▸ hw.ids, ?_, ?_, ?_, ⟨hb.t_keys, hb.t_nodup⟩, ⟨hb.l_keys, hb.l_nodup⟩⟩
  · unfold edgeList; rw [hfr.edges]; exact hw.edges
  · intro r hr
    have : R2A2.strip r ∈ R2A2.nstrip a := hfr.nodes ▸ mem_map_of_mem hr
    obtain ⟨r0, hr0, hs⟩ := mem_map.mp this
    have : r0.other = r.other := congrArg (·.2.2) hs
    rw [← this]; exact hw.nkeys r0 hr0
  · rw [hfr.edges]; exact hw.ekeys

/-- a recorded `UpdateTrackIDs` from `s` to `s₁`, with everything the law over `E` needs -/
structure TidStep (s : St) (start : Node) (oT nT : Nat) (oL nL : Option Nat) (s₁ : St) : Prop where
  wf : WF s
  wf₁ : WF s₁
  step : R2A2.Step s s₁ start oT nT oL nL
  frame : FrameO s s₁

theorem TidStep.max {s s₁ : St} {start : Node} {oT nT : Nat} {oL nL : Option Nat}
    (h : TidStep s start oT nT oL nL s₁) : MaxOK s ∧ MaxOK s₁ :=
  ⟨MaxOK.of_book h.wf.ids h.step.ws.2, MaxOK.of_book h.wf₁.ids h.step.wt.2⟩

/-- one inversion of an `UpdateTrackIDs` record, from anywhere in the `E`-class of the post state -/
theorem tid_step {s s₁ : St} {start : Node} {oT nT : Nat} {oL nL : Option Nat}
    (h : TidStep s start oT nT oL nL s₁) {s₁' : St} (he : E s₁' s₁) :
    ∃ s₂, s₁'.invPrim (.updTid start oT nT oL nL) = .ok (s₂, .updTid start nT oT (s₁.linOf start) oL) ∧
      E s₂ s ∧ TidStep s₁ start nT oT (s₁.linOf start) oL s := by
  have hF := he.obsF h.wf₁
  have hw' := he.wf_left h.wf₁
  have hm' := he.max_left h.max.2
  have hteq : R2A2.TEq s₁' s₁ := obsF_teq hF
  have hW2 : R2A2.WF s₁' :=
    ⟨tv_forest hteq.view.symm hw'.ids hw'.edges h.step.wt.1, teq_bookOK hteq.symm hw' hm' h.step.wt.2⟩
  obtain ⟨s₂, hinv, hq, hwf2, hfr, hst⟩ := h.step.inverse hteq hW2
  have hw₂ : WF s₂ := wf_of_walkFrame hw' hfr hwf2.2
  have hfo : FrameO s₂ s := ((FrameO.of_frame hfr).symm.trans (FrameO.of_obsF hF)).trans h.frame.symm
  have hobs : ObsF s₂ s :=
    ⟨fun n => nobs_eq_of (hfo.nodes n).symm (hq.view.tid n) (hq.view.lin n), fun e => (hfo.edges e).symm,
      hfo.seg.symm, hq.t2n, hq.l2n, hfo.reg.symm⟩
  refine ⟨s₂, hinv, E.mk' ((obsEq_iff_obsF hw₂ h.wf).mpr hobs) hw₂ h.wf
    (MaxOK.of_book hw₂.ids hwf2.2) h.max.1, h.wf₁, h.wf, ?_, h.frame.symm⟩
  exact hst.congr hteq h.step.wt hq h.step.ws

/-- closed-under-inversion predicate for `UpdateTrackIDs` records -/
def GoodTid (s : St) (r : PrimRec) (s₁ : St) : Prop :=
  ∃ start oT nT oL nL, r = .updTid start oT nT oL nL ∧ TidStep s start oT nT oL nL s₁

theorem goodTid_closed (s : St) (r : PrimRec) (s₁ : St) (h : GoodTid s r s₁) (s₁' : St)
    (he : E s₁' s₁) : ∃ s₂ r', s₁'.invPrim r = .ok (s₂, r') ∧ E s₂ s ∧ GoodTid s₁ r' s := by
  obtain ⟨start, oT, nT, oL, nL, rfl, hS⟩ := h
  obtain ⟨s₂, h1, h2, h3⟩ := tid_step hS he
  exact ⟨s₂, _, h1, h2, start, nT, oT, _, oL, rfl, h3⟩

/-- applying `UpdateTrackIDs` under its view precondition on a well-formed forest with consistent
    bookkeeping: closed form and `TidStep` -/
theorem pUpdTid_tidStep {s : St} (hw : WF s) (hF : Forest s) (hB : BookOK s) {start : Node}
    {oT nT : Nat} {oL nL : Option Nat} (hp : R2A2.ViewPre s start oT nT oL nL) :
    s.pUpdTid start nT nL = .ok (s.walk start oT nT oL nL, .updTid start oT nT oL nL) ∧
    TidStep s start oT nT oL nL (s.walk start oT nT oL nL) := by
  obtain ⟨h1, h2, h3⟩ := R2A2.step_of_pre ⟨hF, hB⟩ hp
  exact ⟨h1, hw, wf_of_walkFrame hw h3 h2.wt.2, h2, FrameO.of_frame h3⟩

theorem invLaw_updTid {s s₁ : St} {r : PrimRec} (hw : WF s) (hF : Forest s) (hB : BookOK s)
    {start : Node} {oT nT : Nat} {oL nL : Option Nat} (hp : R2A2.ViewPre s start oT nT oL nL)
    (h : s.pUpdTid start nT nL = .ok (s₁, r)) :
    r = .updTid start oT nT oL nL ∧ InvLaw E s r s₁ ∧ TidStep s start oT nT oL nL s₁ := by
  obtain ⟨h1, h2⟩ := pUpdTid_tidStep hw hF hB hp
  rw [h1] at h
  simp only [Except.ok.injEq, Prod.mk.injEq] at h
  obtain ⟨e1, e2⟩ := h
  subst e1; subst e2
  exact ⟨rfl, InvLaw.of_closed GoodTid goodTid_closed ⟨start, oT, nT, oL, nL, rfl, h2⟩, h2⟩

/-! ## §6 the seven laws over the common equivalence, post-state facts, chain helpers -/

/-- `UpdateNodeAttrs`: no precondition beyond `Good s` -/
theorem law_updAttrs {s s₁ : St} {n : Node} {attrs : List (Key × Val)} {rec : PrimRec}
    (hg : Good s) (h : s.pUpdAttrs n attrs = .ok (s₁, rec)) : InvLaw E s rec s₁ := by
  obtain ⟨prev, hr⟩ := pUpdAttrs_rec h
  exact InvLaw.toE (invLaw_updAttrs hg.wf h) (hr ▸ trivial) hg.max (maxOK_of_BV (PC.pUpdAttrs_BV h) hg.max)

theorem good_updAttrs {s s₁ : St} {n : Node} {attrs : List (Key × Val)} {rec : PrimRec}
    (hg : Good s) (h : s.pUpdAttrs n attrs = .ok (s₁, rec)) : Good s₁ := by
  obtain ⟨prev, _, hs⟩ := pUpdAttrs_attrStep hg.wf h
  exact ⟨hs.wf₁, maxOK_of_BV (PC.pUpdAttrs_BV h) hg.max⟩

/-- `UpdateNodeSeg` under `R2A1.SegPre` -/
theorem law_updSeg {s s₁ : St} {g : Seg} {n : Node} {px : List Pix} {added : Bool} {r : PrimRec}
    (hp : SegPre s g n px added) (hm : MaxOK s) (h : s.pUpdSeg n px added = .ok (s₁, r)) :
    InvLaw E s r s₁ :=
  InvLaw.toE (invLaw_updSeg hp h) (pUpdSeg_rec h ▸ trivial) hm (maxOK_of_BV (PC.pUpdSeg_BV h) hm)

theorem good_updSeg {s s₁ : St} {g : Seg} {n : Node} {px : List Pix} {added : Bool} {r : PrimRec}
    (hp : SegPre s g n px added) (hm : MaxOK s) (h : s.pUpdSeg n px added = .ok (s₁, r)) : Good s₁ :=
  ⟨(pUpdSeg_segStep hp h).2.wf₁, maxOK_of_BV (PC.pUpdSeg_BV h) hm⟩

/-- `AddNode` under `R2A1.AddPre` -/
theorem law_addNode {s s₁ : St} {rec : NodeRec} {px : Option (List Pix)} {r : PrimRec}
    (hp : AddPre s rec px) (hm : MaxOK s) (h : s.pAddNode rec px = .ok (s₁, r)) : InvLaw E s r s₁ := by
  obtain ⟨m1, hr⟩ := maxOK_pAddNode hm h
  exact InvLaw.toE (invLaw_addNode hp h) (hr ▸ trivial) hm m1

theorem good_addNode {s s₁ : St} {rec : NodeRec} {px : Option (List Pix)} {r : PrimRec}
    (hp : AddPre s rec px) (hm : MaxOK s) (h : s.pAddNode rec px = .ok (s₁, r)) : Good s₁ :=
  ⟨(pAddNode_nodeRel hp h).2.wf₁, (maxOK_pAddNode hm h).1⟩

/-- `DeleteNode` under `R2A1.DelPre` (source state first, as in `invLaw_delNode`) -/
theorem law_delNode {s s₁ : St} {n : Node} {px : Option (List Pix)} {r : PrimRec}
    (hp : DelPre s n) (hpx : px = none ∨ px = s.getPixels n) (hm : MaxOK s)
    (h : s.pDelNode n px = .ok (s₁, r)) : InvLaw E s r s₁ := by
  obtain ⟨m1, sv, px', hr⟩ := maxOK_pDelNode hm h
  exact InvLaw.toE (invLaw_delNode hp hpx h) (hr ▸ trivial) hm m1

theorem good_delNode {s s₁ : St} {n : Node} {px : Option (List Pix)} {r : PrimRec}
    (hp : DelPre s n) (hpx : px = none ∨ px = s.getPixels n) (hm : MaxOK s)
    (h : s.pDelNode n px = .ok (s₁, r)) : Good s₁ := by
  obtain ⟨_, _, _, _, hG⟩ := pDelNode_good hp hpx h
  exact ⟨hG.rel.wf, (maxOK_pDelNode hm h).1⟩

/-- `AddEdge` under `AddEdgePre` -/
theorem law_addEdge {s s₁ : St} {e : Edge} {attrs : List (Key × Val)} {r : PrimRec}
    (hp : AddEdgePre s e attrs) (hm : MaxOK s) (h : s.pAddEdge e attrs = .ok (s₁, r)) :
    InvLaw E s r s₁ :=
  InvLaw.toE (invLaw_addEdge_obsW hp h) (pAddEdge_rec h ▸ trivial) hm (maxOK_of_BV (PC.pAddEdge_BV h) hm)

theorem good_addEdge {s s₁ : St} {e : Edge} {attrs : List (Key × Val)} {r : PrimRec}
    (hp : AddEdgePre s e attrs) (hm : MaxOK s) (h : s.pAddEdge e attrs = .ok (s₁, r)) : Good s₁ :=
  ⟨(pAddEdge_edgeStep hp h).2.wf₁, maxOK_of_BV (PC.pAddEdge_BV h) hm⟩

/-- `DeleteEdge` under `DelEdgePre` -/
theorem law_delEdge {s s₁ : St} {e : Edge} {r : PrimRec}
    (hp : DelEdgePre s e) (hm : MaxOK s) (h : s.pDelEdge e = .ok (s₁, r)) : InvLaw E s r s₁ := by
  obtain ⟨sv, hr⟩ := pDelEdge_rec h
  exact InvLaw.toE (invLaw_delEdge_obsW hp h) (hr ▸ trivial) hm (maxOK_of_BV (PC.pDelEdge_BV h) hm)

theorem good_delEdge {s s₁ : St} {e : Edge} {r : PrimRec}
    (hp : DelEdgePre s e) (hm : MaxOK s) (h : s.pDelEdge e = .ok (s₁, r)) : Good s₁ := by
  obtain ⟨_, _, _, hS, _, _⟩ := pDelEdge_edgeStep hp h
  exact ⟨hS.wf, maxOK_of_BV (PC.pDelEdge_BV h) hm⟩

/-- `UpdateTrackIDs` under `WF`, `Forest`, `BookOK` and the view precondition `R2A2.ViewPre` (no
    `TidOK`: applies to the intermediate states of the user actions) -/
theorem law_updTid {s s₁ : St} {r : PrimRec} (hw : WF s) (hF : Forest s) (hB : BookOK s)
    {start : Node} {oT nT : Nat} {oL nL : Option Nat} (hp : R2A2.ViewPre s start oT nT oL nL)
    (h : s.pUpdTid start nT nL = .ok (s₁, r)) : InvLaw E s r s₁ :=
  (invLaw_updTid hw hF hB hp h).2.1

/-- … and what the post state satisfies -/
theorem good_updTid {s s₁ : St} {r : PrimRec} (hw : WF s) (hF : Forest s) (hB : BookOK s)
    {start : Node} {oT nT : Nat} {oL nL : Option Nat} (hp : R2A2.ViewPre s start oT nT oL nL)
    (h : s.pUpdTid start nT nL = .ok (s₁, r)) :
    r = .updTid start oT nT oL nL ∧ s₁ = s.walk start oT nT oL nL ∧ Good s₁ ∧ Forest s₁ ∧ BookOK s₁ := by
  obtain ⟨h1, h2⟩ := pUpdTid_tidStep hw hF hB hp
  rw [h1] at h
  simp only [Except.ok.injEq, Prod.mk.injEq] at h
  obtain ⟨e1, e2⟩ := h
  subst e1; subst e2
  exact ⟨rfl, rfl, ⟨h2.wf₁, h2.max.2⟩, h2.step.wt.1, h2.step.wt.2⟩

/-- the law from the invariants (`Forest`, `TidOK`, `BookOK`, lineage constant along edges) and the
    documented precondition "the new id is not found downstream" -/
theorem law_updTid_of_tidOK {s s₁ : St} {r : PrimRec} (hw : WF s) (hF : Forest s) (hT : TidOK s)
    (hB : BookOK s) {start : Node} {oT nT : Nat} {nL : Option Nat}
    (hm : start ∈ s.ids) (ht : s.tidOf start = some oT)
    (hLA : s.linOn = true → ∀ e ∈ s.edgeList, s.linOf e.2 = s.linOf e.1)
    (hLH : s.linOn = true → nL.isSome = true → (s.linOf start).isSome = true)
    (hnew : R2A2.NotDownstream s start nT)
    (h : s.pUpdTid start nT nL = .ok (s₁, r)) : InvLaw E s r s₁ :=
  law_updTid hw hF hB (R2A2.viewPre_of_tidOK hF hT hm ht hLA hLH hnew) h

/-! ### the bridge to `C02_session` and chain helpers -/

/-- the C01 obligation of the history theorem with `Rec := Chain E` -/
theorem obligation_E : C01Obligation (fun a s t => Chain E s a t) E :=
  obligation E_isEquiv E_stepped

theorem chain_nil (s : St) : Chain E s [] s := Chain.nil (E_isEquiv.refl s)
theorem chain_single {s s₁ : St} {r : PrimRec} (h : InvLaw E s r s₁) : Chain E s [r] s₁ :=
  Chain.single E_isEquiv h
theorem chain_snoc {s sₙ t : St} {recs : List PrimRec} {r : PrimRec} (h : Chain E s recs sₙ)
    (hl : InvLaw E sₙ r t) : Chain E s (recs ++ [r]) t := h.snoc E_isEquiv hl
theorem chain_append {s t u : St} {l₁ l₂ : List PrimRec} (h₁ : Chain E s l₁ t) (h₂ : Chain E t l₂ u) :
    Chain E s (l₁ ++ l₂) u := h₁.append E_isEquiv h₂
theorem chain_congr {s sₙ t tₙ : St} {recs : List PrimRec} (h : Chain E s recs sₙ) (h1 : E s t)
    (h2 : E sₙ tₙ) : Chain E t recs tₙ := h.congr E_isEquiv h1 h2

/-- undo of a lawful run from anywhere in the class of its end state; redo of that undo -/
theorem chain_undo_redo {s sₙ : St} {recs : List PrimRec} (h : Chain E s recs sₙ) {sₙ' : St}
    (he : E sₙ' sₙ) :
    ∃ s' recs', sₙ'.invGroup recs = (s', .ok recs') ∧ E s' s ∧ recs'.length = recs.length ∧
      Chain E sₙ recs' s ∧
      ∃ s'' recs'', s'.invGroup recs' = (s'', .ok recs'') ∧ E s'' sₙ ∧ Chain E s recs'' sₙ := by
  obtain ⟨s', recs', h1, h2, h3, h4⟩ := invGroup_chain E_isEquiv h sₙ' he
  obtain ⟨s'', recs'', g1, g2, _, g4⟩ := invGroup_chain E_isEquiv h4 s' h2
  exact ⟨s', recs', h1, h2, h3, h4, s'', recs'', g1, g2, g4⟩

/-- a partial run of a composite user action started in `s`: accepted so far, and the records
    applied so far form a lawful chain from `s` to the current state -/
def Run (s : St) (a : UOut) : Prop := ∃ recs, a.2 = .ok recs ∧ Chain E s recs a.1

theorem Run.start (s : St) : Run s (s, .ok []) := ⟨[], rfl, chain_nil s⟩

theorem Run.chain {s : St} {a : UOut} {recs : List PrimRec} (h : Run s a) (hr : a.2 = .ok recs) :
    Chain E s recs a.1 := by
  obtain ⟨recs', h1, h2⟩ := h
  rw [h1] at hr; cases hr; exact h2

theorem Run.thenPrim {s : St} {a : UOut} {f : St → Except Err (St × PrimRec)} {s' : St} {r : PrimRec}
    (h : Run s a) (hf : f a.1 = .ok (s', r)) (hl : InvLaw E a.1 r s') :
    Run s (St.thenPrim a f) ∧ (St.thenPrim a f).1 = s' := by
  obtain ⟨recs, h1, h2⟩ := h
  have : St.thenPrim a f = (s', .ok (recs ++ [r])) := by unfold St.thenPrim; rw [h1]; simp only [hf]
  rw [this]
  exact ⟨⟨_, rfl, chain_snoc h2 hl⟩, rfl⟩

theorem Run.thenUser {s : St} {a : UOut} {f : St → UOut} (h : Run s a) (hu : Run a.1 (f a.1)) :
    Run s (St.thenUser a f) ∧ (St.thenUser a f).1 = (f a.1).1 := by
  obtain ⟨recs, h1, h2⟩ := h
  obtain ⟨recs', g1, g2⟩ := hu
  have : St.thenUser a f = ((f a.1).1, .ok (recs ++ recs')) := by unfold St.thenUser; rw [h1]; simp only [g1]
  rw [this]
  exact ⟨⟨_, rfl, chain_append h2 g2⟩, rfl⟩

/-- a finished lawful run is undone by `ActionGroup._rollback` up to `E` -/
theorem Run.rollback {s : St} {a : UOut} {recs : List PrimRec} (h : Run s a) (hr : a.2 = .ok recs) :
    E (a.1.rollback recs) s := by
  obtain ⟨s', recs', hg, he, _⟩ := invGroup_chain E_isEquiv (h.chain hr) a.1 (E_isEquiv.refl _)
  unfold St.rollback; rw [hg]; exact he

/-! ## §7 checkable forms, example states -/

/-- decidable form of `MaxOK` -/
def MaxOKb (s : St) : Prop :=
  ∀ r ∈ s.nodes, r.tid ≤ s.maxTid ∧ (s.linOn = true → r.lin.getD 0 ≤ s.maxLin)

instance (s : St) : Decidable (MaxOKb s) := by unfold MaxOKb; infer_instance

theorem MaxOK.of_b {s : St} (h : MaxOKb s) : MaxOK s := by
  intro r hr
  obtain ⟨a, b⟩ := h r hr
  exact ⟨a, fun hon l hl => by have := b hon; rw [hl] at this; exact this⟩

theorem Good.of_b {s : St} (h1 : WFb s) (h2 : MaxOKb s) : Good s := ⟨WF.of_b h1, MaxOK.of_b h2⟩

/-- `AddEdgePre` from record-level hypotheses: every non-None given attribute is registered, and so
    is an active IoU key -/
theorem AddEdgePre.of_records {s : St} {e : Edge} {attrs : List (Key × Val)} (hw : WF s)
    (hf : e ∉ s.edgeList) (hk : (attrs.map (·.1)).Nodup)
    (hreg : ∀ kv ∈ attrs, kv.2 ≠ Val.none → kv.1 ∈ s.regEdge)
    (hiou : s.iouActive = true → s.seg.isSome = true → ∀ k, s.iouKey = some k → k ∈ s.regEdge) :
    AddEdgePre s e attrs := by
  refine ⟨hw, hf, hk, fun k hne => ?_⟩
  have hbase : obsAttrs attrs k ≠ Val.none → k ∈ s.regEdge := by
    intro hk'
    unfold obsAttrs at hk'
    cases ha : alook k attrs with
    | none => rw [ha] at hk'; exact absurd rfl hk'
    | some v => rw [ha] at hk'; exact hreg (k, v) (alook_mem ha) hk'
  unfold iouW at hne
  cases hik : s.iouKey with
  | none => rw [hik] at hne; exact hbase hne
  | some k0 =>
    rw [hik] at hne
    simp only at hne
    split at hne
    · rename_i hc
      simp only [Bool.and_eq_true] at hc
      by_cases hkk : k = k0
      · rw [hkk]; exact hiou hc.1 hc.2 k0 hik
      · simp only [hkk, if_false] at hne; exact hbase hne
    · exact hbase hne

/-- `exS` listed in another insertion order, with larger id maxima and counter, and a `None`
    attribute on node 1: `E`-equal to `exS`, not `St.Equiv`-equal -/
def exS' : St := { exS with
  nodes := [⟨5, 2, 4, some 2, [(7, .tok 4)]⟩, ⟨4, 3, 2, some 1, [(7, .tok 3)]⟩, ⟨3, 1, 3, some 1, [(7, .tok 2)]⟩,
            ⟨2, 1, 2, some 1, [(7, .tok 1)]⟩, ⟨1, 0, 1, some 1, [(9, .none), (7, .tok 0)]⟩],
  edges := [⟨(2, 4), []⟩, ⟨(1, 3), [(11, .none)]⟩, ⟨(1, 2), []⟩],
  t2n := [(4, [5]), (3, [3]), (2, [2, 4]), (1, [1])],
  l2n := [(2, [5]), (1, [4, 3, 2, 1])], maxTid := 9, maxLin := 7, counter := 20 }

/-- `exS` with the track maximum below an id in use: observationally `exS`, well-formed, but not
    `BookOK` -/
def exSlow : St := { exS with maxTid := 2 }

/-- decidable form of "the two dictionaries read the same" -/
def AttrEqb (l l' : List (Key × Val)) : Prop :=
  ∀ k ∈ l.map (·.1) ++ l'.map (·.1), obsAttrs l k = obsAttrs l' k

instance (l l' : List (Key × Val)) : Decidable (AttrEqb l l') := by unfold AttrEqb; infer_instance

theorem obsAttrs_of_b {l l' : List (Key × Val)} (h : AttrEqb l l') : obsAttrs l = obsAttrs l' := by
  funext k
  by_cases hk : k ∈ l.map (·.1) ++ l'.map (·.1)
  · exact h k hk
  · have h1 : alook k l = none := (PC.alook_eq_none_iff k l).mpr (fun hc => hk (mem_append_left _ hc))
    have h2 : alook k l' = none := (PC.alook_eq_none_iff k l').mpr (fun hc => hk (mem_append_right _ hc))
    unfold obsAttrs; rw [h1, h2]

/-- one direction of a checkable `ObsEq` -/
def ObsLEb (s t : St) : Prop :=
  (∀ r ∈ s.nodes, ∃ r' ∈ t.nodes, (r'.id = r.id ∧ r'.time = r.time ∧ r'.tid = r.tid ∧ r'.lin = r.lin) ∧
      AttrEqb r'.other r.other) ∧
  (∀ r ∈ s.edges, ∃ r' ∈ t.edges, r'.e = r.e ∧ AttrEqb r'.attrs r.attrs) ∧
  (∀ p ∈ s.t2n, ∀ n ∈ p.2, ∃ q ∈ t.t2n, q.1 = p.1 ∧ n ∈ q.2) ∧
  (∀ p ∈ s.l2n, ∀ n ∈ p.2, ∃ q ∈ t.l2n, q.1 = p.1 ∧ n ∈ q.2)

instance (s t : St) : Decidable (ObsLEb s t) := by unfold ObsLEb; infer_instance

/-- checkable `ObsEq` between states with distinct lookup keys -/
theorem obsEq_of_check {s t : St} (hs : WF s) (ht : WF t) (h1 : ObsLEb s t) (h2 : ObsLEb t s)
    (hseg : s.seg = t.seg) (hreg : s.reg = t.reg) : ObsEq s t := by
  have nodes : ∀ {a b : St}, ObsLEb a b → ∀ o, NObs a o → NObs b o := by
    rintro a b h o ⟨r, hr, rfl⟩
    obtain ⟨r', hr', ⟨e1, e2, e3, e4⟩, e5⟩ := h.1 r hr
    refine ⟨r', hr', ?_⟩
    unfold obsNode
    rw [e1, e2, e3, e4, obsAttrs_of_b e5]
  have edges : ∀ {a b : St}, ObsLEb a b → ∀ o, EObs a o → EObs b o := by
    rintro a b h o ⟨r, hr, rfl⟩
    obtain ⟨r', hr', e1, e5⟩ := h.2.1 r hr
    refine ⟨r', hr', ?_⟩
    unfold obsEdge
    rw [e1, obsAttrs_of_b e5]
  have book : ∀ {m m' : List (Nat × List Node)}, (m.map (·.1)).Nodup → (m'.map (·.1)).Nodup →
      (∀ p ∈ m, ∀ n ∈ p.2, ∃ q ∈ m', q.1 = p.1 ∧ n ∈ q.2) → ∀ id n, PC.InBook m id n → PC.InBook m' id n := by
    intro m m' hk hk' h id n hin
    obtain ⟨p, hp, rfl, hn⟩ := (inBook_iff_mem hk _ n).mp hin
    obtain ⟨q, hq, e, hn'⟩ := h p hp n hn
    exact (inBook_iff_mem hk' _ n).mpr ⟨q, hq, e, hn'⟩
  exact ⟨fun o => ⟨nodes h1 o, nodes h2 o⟩, fun o => ⟨edges h1 o, edges h2 o⟩, hseg,
    fun id n => ⟨book hs.t2n.keys ht.t2n.keys h1.2.2.1 id n, book ht.t2n.keys hs.t2n.keys h2.2.2.1 id n⟩,
    fun id n => ⟨book hs.l2n.keys ht.l2n.keys h1.2.2.2 id n, book ht.l2n.keys hs.l2n.keys h2.2.2.2 id n⟩,
    hreg⟩

theorem exS'_E : E exS' exS :=
  E.of_good (obsEq_of_check (WF.of_b (by decide)) (WF.of_b (by decide)) (by decide) (by decide) rfl rfl)
    (Good.of_b (by decide) (by decide)) (Good.of_b (by decide) (by decide))

/-! ### the two state-changing queries stay inside the `E`-class -/

/-- `_get_new_node_ids` only advances the counter -/
theorem E_newNodeIds (s : St) (n : Nat) : E (s.newNodeIds n).1 s :=
  ⟨⟨fun _ => Iff.rfl, fun _ => Iff.rfl, rfl, fun _ _ => Iff.rfl, fun _ _ => Iff.rfl, rfl⟩,
    ⟨fun ⟨a, b, c, d, e, f⟩ => ⟨a, b, c, d, e, f⟩, fun ⟨a, b, c, d, e, f⟩ => ⟨a, b, c, d, e, f⟩⟩, Iff.rfl⟩

theorem mapWF_resort {m : List (Nat × List Node)} {tid : Nat} {cands sorted : List Node}
    (hc : alook tid m = some cands) (hp : sorted.Perm cands) :
    PC.MapWF (aset tid sorted m) ↔ PC.MapWF m := by
  have hmem : tid ∈ m.map (·.1) := by
    by_cases h : tid ∈ m.map (·.1)
    · exact h
    · rw [(PC.alook_eq_none_iff tid m).mpr h] at hc; cases hc
  have hkeys : (aset tid sorted m).map (·.1) = m.map (·.1) := by rw [PC.keys_aset, if_pos hmem]
  constructor
  · intro h
    refine ⟨hkeys ▸ h.keys, fun id l hl => ?_⟩
    by_cases e : id = tid
    · subst e
      rw [hc] at hl; cases hl
      exact hp.nodup_iff.1 (h.nodup id sorted (by rw [PC.alook_aset, if_pos rfl]))
    · exact h.nodup id l (by rw [PC.alook_aset, if_neg e]; exact hl)
  · intro h
    refine ⟨hkeys.symm ▸ h.keys, fun id l hl => ?_⟩
    rw [PC.alook_aset] at hl
    split at hl
    · cases hl; exact hp.nodup_iff.2 (h.nodup _ _ hc)
    · exact h.nodup id l hl

/-- `get_track_neighbors` only re-sorts one lookup entry -/
theorem E_trackNeighbors (s : St) (tid time : Nat) : E (s.trackNeighbors tid time).1 s := by
  rcases trackNeighbors_fst s tid time with h | ⟨cands, hc, h⟩
  · rw [h]; exact E_isEquiv.refl s
  · refine ⟨ObsEq.of_equiv (trackNeighbors_equiv s tid time), ?_, ?_⟩
    · rw [h]
      have hm := mapWF_resort hc (PC.sortByTime_perm s cands)
      exact ⟨fun ⟨a, b, c, d, e, f⟩ => ⟨a, b, c, d, hm.1 e, f⟩, fun ⟨a, b, c, d, e, f⟩ => ⟨a, b, c, d, hm.2 e, f⟩⟩
    · rw [h]; exact Iff.rfl

theorem E.of_equiv {s t : St} (h : St.Equiv s t) (hs : Good s) (ht : Good t) : E s t :=
  E.of_good (ObsEq.of_equiv h) hs ht

/-- `exCur` with node and edge tables reversed -/
def exCurRev : St := { exCur with nodes := exCur.nodes.reverse, edges := exCur.edges.reverse }

/-- a node without pixels: `MeasOK` wants the literal `None` stored under every active key -/
def exNoPix : St :=
  { nodes := [⟨1, 0, 1, some 1, [(10, .none)]⟩], seg := some ⟨2, [0, 0]⟩, rpAvail := [10], rpActive := [10],
    regNode := [10], t2n := [(1, [1])], l2n := [(1, [1])], maxTid := 1, maxLin := 1, counter := 2 }
/-- the same without the `None` entry -/
def exNoPix' : St := { exNoPix with nodes := [⟨1, 0, 1, some 1, []⟩] }

/-! ## §8 the edge-attribute invariant the edge laws need, through the graph-only primitives -/

/-- every visible edge attribute is a registered feature, an active IoU key is registered, and an
    active IoU is current on every edge — what `AddEdgePre` / `DelEdgePre` ask of the state.
    Stated on observed edges, so it is invariant under `ObsEq` between well-formed states. -/
structure EdgeInv (s : St) : Prop where
  reg : ∀ o, EObs s o → ∀ k, o.2 k ≠ Val.none → k ∈ s.regEdge
  iouReg : s.iouActive = true → s.seg.isSome = true → ∀ k, s.iouKey = some k → k ∈ s.regEdge
  cur : ∀ k, s.iouKey = some k → s.iouActive = true → s.seg.isSome = true →
    ∀ o, EObs s o → o.2 k = s.iouOf o.1

theorem eObs_iff_eobs {s : St} (hw : s.edgeList.Nodup) (o : EdgeObs) :
    EObs s o ↔ eobs s o.1 = some o := by
  constructor
  · rintro ⟨r, hr, rfl⟩
    have := find_key_of_mem (fun r : EdgeRec => r.e) s.edges hw r hr
    unfold eobs findEdge
    show (s.edges.find? (fun x => x.e == r.e)).map obsEdge = _
    rw [this]; rfl
  · intro h
    unfold eobs at h
    cases hf : s.findEdge o.1 with
    | none => rw [hf] at h; cases h
    | some r =>
      rw [hf, Option.map_some] at h
      exact ⟨r, (findEdge_some hf).1, Option.some.inj h⟩

theorem iouOf_of_time {s t : St} (hs : t.seg = s.seg) (ht : ∀ n, t.timeOf n = s.timeOf n) (e : Edge) :
    t.iouOf e = s.iouOf e := by
  unfold iouOf; rw [hs, ht, ht]

/-- transfer along equal edge observations, array, registry and node times -/
theorem EdgeInv.of_obs {s t : St} (hs : WF s) (ht : WF t) (he : ∀ e, eobs t e = eobs s e)
    (hseg : t.seg = s.seg) (hreg : t.reg = s.reg) (htime : ∀ n, t.timeOf n = s.timeOf n)
    (hi : EdgeInv s) : EdgeInv t := by
  have hE : ∀ o, EObs t o ↔ EObs s o := (eobs_iff ht.edges hs.edges).mpr he
  obtain ⟨-, q2, -, q4, q5, -, -, -⟩ := reg_fields hreg
  refine ⟨fun o ho k hk => ?_, fun a b k hk => ?_, fun k hk a b o ho => ?_⟩
  · rw [q2]; exact hi.reg o ((hE o).mp ho) k hk
  · rw [q2]; exact hi.iouReg (q5 ▸ a) (hseg ▸ b) k (q4 ▸ hk)
  · rw [iouOf_of_time hseg htime]
    exact hi.cur k (q4 ▸ hk) (q5 ▸ a) (hseg ▸ b) o ((hE o).mp ho)

theorem edgeInv_congr_obs {s t : St} (h : ObsEq s t) (hs : WF s) (ht : WF t) (hi : EdgeInv s) :
    EdgeInv t := by
  have hF := (obsEq_iff_obsF hs ht).mp h
  exact EdgeInv.of_obs hs ht (fun e => (hF.edges e).symm) hF.seg.symm hF.reg.symm
    (fun n => (timeOf_congr hF.nodes n).symm) hi

theorem edgeInv_congrE {s t : St} (h : E s t) (ht : WF t) (hi : EdgeInv t) : EdgeInv s :=
  edgeInv_congr_obs h.1.symm ht (h.wf_left ht) hi

/-- from record-level hypotheses: non-None edge attributes registered, active IoU key registered,
    `MeasOK` (its edge part) -/
theorem EdgeInv.of_records {s : St}
    (hreg : ∀ r ∈ s.edges, ∀ kv ∈ r.attrs, kv.2 ≠ Val.none → kv.1 ∈ s.regEdge)
    (hio : s.iouActive = true → s.seg.isSome = true → ∀ k, s.iouKey = some k → k ∈ s.regEdge)
    (hm : MeasOK s) : EdgeInv s := by
  refine ⟨?_, hio, ?_⟩
  · rintro o ⟨r, hr, rfl⟩ k hk
    have hk' : obsAttrs r.attrs k ≠ Val.none := hk
    unfold obsAttrs at hk'
    cases ha : alook k r.attrs with
    | none => rw [ha] at hk'; exact absurd rfl hk'
    | some v => rw [ha] at hk'; exact hreg r hr (k, v) (alook_mem ha) hk'
  · rintro k hk a b o ⟨r, hr, rfl⟩
    obtain ⟨g, hg⟩ := Option.isSome_iff_exists.mp b
    have := (hm g hg).2 a k hk r hr
    show obsAttrs r.attrs k = s.iouOf r.e
    unfold obsAttrs; rw [this]; rfl

theorem AddEdgePre.of_edgeInv {s : St} {e : Edge} (hw : WF s) (hf : e ∉ s.edgeList) (hi : EdgeInv s) :
    AddEdgePre s e [] :=
  AddEdgePre.of_records hw hf (by simp) (fun kv h => by cases h) hi.iouReg

theorem DelEdgePre.of_edgeInv {s : St} {e : Edge} (hw : WF s) (h1 : e.1 ∈ s.ids) (h2 : e.2 ∈ s.ids)
    (hi : EdgeInv s) : DelEdgePre s e := by
  refine ⟨hw, h1, h2, fun r hf k hk => ?_, fun r hf => iouW_fix (fun k a b c => ?_)⟩
  · exact hi.reg (obsEdge r) ⟨r, (findEdge_some hf).1, rfl⟩ k hk
  · have := hi.cur k a b c (obsEdge r) ⟨r, (findEdge_some hf).1, rfl⟩
    rw [show (obsEdge r).1 = e from (findEdge_some hf).2] at this
    exact this

theorem EdgeStep.frame {s s₁ : St} {e : Edge} {A : Key → Val} (h : EdgeStep s e A s₁) :
    s₁.seg = s.seg ∧ s₁.reg = s.reg ∧ (∀ n, s₁.timeOf n = s.timeOf n) :=
  ⟨h.rest.seg.symm, h.rest.reg.symm, fun n => (timeOf_congr h.rest.nodes n).symm⟩

/-- removing the edge keeps the invariant -/
theorem EdgeStep.inv_down {s s₁ : St} {e : Edge} {A : Key → Val} (h : EdgeStep s e A s₁)
    (hi : EdgeInv s₁) : EdgeInv s := by
  obtain ⟨f1, f2, f3⟩ := h.frame
  obtain ⟨-, q2, -, q4, q5, -, -, -⟩ := reg_fields f2
  have hE : ∀ o, EObs s o → EObs s₁ o := by
    intro o ho
    have h1 := (eObs_iff_eobs h.wf.edges o).mp ho
    have hne : o.1 ≠ e := fun hc => h.absent ((eobs_isSome_iff s e).mp (by rw [← hc, h1]; rfl))
    exact (eObs_iff_eobs h.wf₁.edges o).mpr ((h.oth o.1 hne).trans h1)
  refine ⟨fun o ho k hk => ?_, fun a b k hk => ?_, fun k hk a b o ho => ?_⟩
  · rw [← q2]; exact hi.reg o (hE o ho) k hk
  · rw [← q2]; exact hi.iouReg (q5 ▸ a) (f1 ▸ b) k (q4 ▸ hk)
  · rw [← iouOf_of_time f1 f3]
    exact hi.cur k (q4 ▸ hk) (q5 ▸ a) (f1 ▸ b) o (hE o ho)

/-- adding the edge (registered attributes, current IoU) keeps the invariant -/
theorem EdgeStep.inv_up {s s₁ : St} {e : Edge} {A : Key → Val} (h : EdgeStep s e A s₁)
    (hi : EdgeInv s) : EdgeInv s₁ := by
  obtain ⟨f1, f2, f3⟩ := h.frame
  obtain ⟨-, q2, -, q4, q5, -, -, -⟩ := reg_fields f2
  have hE : ∀ o, EObs s₁ o → o = (e, A) ∨ EObs s o := by
    intro o ho
    have h1 := (eObs_iff_eobs h.wf₁.edges o).mp ho
    by_cases hc : o.1 = e
    · left; rw [hc, h.present] at h1; exact (Option.some.inj h1).symm
    · right; exact (eObs_iff_eobs h.wf.edges o).mpr ((h.oth o.1 hc).symm.trans h1)
  refine ⟨fun o ho k hk => ?_, fun a b k hk => ?_, fun k hk a b o ho => ?_⟩
  · rw [q2]
    rcases hE o ho with rfl | h'
    · exact h.registered k hk
    · exact hi.reg o h' k hk
  · rw [q2]; exact hi.iouReg (q5 ▸ a) (f1 ▸ b) k (q4 ▸ hk)
  · rw [iouOf_of_time f1 f3]
    rcases hE o ho with rfl | h'
    · have hc := h.cur
      unfold iouW at hc
      rw [← q4, hk] at hc
      simp only at hc
      have hact : (s.iouActive && s.seg.isSome) = true := by
        rw [← q5, a, ← f1, b]; rfl
      rw [if_pos hact] at hc
      have := congrFun hc k
      simp only [if_true] at this
      exact this.symm
    · exact hi.cur k (q4 ▸ hk) (q5 ▸ a) (f1 ▸ b) o h'

theorem edgeInv_addEdge {s s₁ : St} {e : Edge} {attrs : List (Key × Val)} {r : PrimRec}
    (hp : AddEdgePre s e attrs) (hi : EdgeInv s) (h : s.pAddEdge e attrs = .ok (s₁, r)) : EdgeInv s₁ :=
  (pAddEdge_edgeStep hp h).2.inv_up hi

theorem edgeInv_delEdge {s s₁ : St} {e : Edge} {r : PrimRec}
    (hp : DelEdgePre s e) (hi : EdgeInv s) (h : s.pDelEdge e = .ok (s₁, r)) : EdgeInv s₁ := by
  obtain ⟨_, _, _, hS, _, _⟩ := pDelEdge_edgeStep hp h
  exact hS.inv_down hi

theorem edgeInv_updAttrs {s s₁ : St} {n : Node} {attrs : List (Key × Val)} {rec : PrimRec}
    (hw : WF s) (hi : EdgeInv s) (h : s.pUpdAttrs n attrs = .ok (s₁, rec)) : EdgeInv s₁ := by
  obtain ⟨prev, _, hs⟩ := pUpdAttrs_attrStep hw h
  exact EdgeInv.of_obs hw hs.wf₁ (fun e => (hs.rest.edges e).symm) hs.rest.seg.symm hs.rest.reg.symm
    (PC.pUpdAttrs_BV h).timeOf hi

theorem edgeInv_updTid {s s₁ : St} {r : PrimRec} (hw : WF s) (hF : Forest s) (hB : BookOK s)
    {start : Node} {oT nT : Nat} {oL nL : Option Nat} (hp : R2A2.ViewPre s start oT nT oL nL)
    (hi : EdgeInv s) (h : s.pUpdTid start nT nL = .ok (s₁, r)) : EdgeInv s₁ := by
  obtain ⟨_, _, hS⟩ := invLaw_updTid hw hF hB hp h
  exact EdgeInv.of_obs hw hS.wf₁ hS.frame.edges hS.frame.seg hS.frame.reg hS.step.eff.time hi

/-! ## §9 the laws from the symmetric step descriptions

The `law_*` lemmas of §6 start from "the primitive was applied at `s`". The step relations
(`AttrStep`, `SegStep`, `NodeRel`, `GoodDelRec`, `EdgeStep`, `TidStep`) describe a recorded step
between two states without reference to how the post state was computed; the law follows from the
description alone. (Needed e.g. for a paint: the caller has already written the stroke into the
array when `UpdateNodeSeg` runs, so the record has to be read against the *unpainted* state.) -/

theorem law_of_attrStep {s s₁ : St} {n : Node} {prev new : List (Key × Val)}
    (h : AttrStep s n prev new s₁) (ms : MaxOK s) (ms₁ : MaxOK s₁) :
    InvLaw E s (.updAttrs n prev new) s₁ :=
  InvLaw.toE (InvLaw.of_closed GoodAttr goodAttr_closed ⟨n, prev, new, rfl, h⟩) trivial ms ms₁

theorem law_of_segStep {s s₁ : St} {n : Node} {px : List Pix} {added : Bool}
    (h : SegStep s n px added s₁) (ms : MaxOK s) (ms₁ : MaxOK s₁) :
    InvLaw E s (.updSeg n px added) s₁ :=
  InvLaw.toE (InvLaw.of_closed GoodSeg goodSeg_closed ⟨n, px, added, rfl, h⟩) trivial ms ms₁

theorem law_of_nodeRel {s s₁ : St} {rec : NodeRec} (px : Option (List Pix))
    (h : NodeRel s rec.id s₁) (ms : MaxOK s) (ms₁ : MaxOK s₁) :
    InvLaw E s (.addNode rec px) s₁ :=
  InvLaw.toE (InvLaw.of_closed GoodNode goodNode_closed (Or.inl ⟨rec, px, rfl, h⟩)) trivial ms ms₁

theorem law_of_goodDelRec {s s₁ : St} {saved : NodeRec} {px : Option (List Pix)}
    (h : GoodDelRec s saved px s₁) (ms : MaxOK s) (ms₁ : MaxOK s₁) :
    InvLaw E s (.delNode saved px) s₁ :=
  InvLaw.toE (InvLaw.of_closed GoodNode goodNode_closed (Or.inr ⟨saved, px, rfl, h⟩)) trivial ms ms₁

theorem law_of_edgeStep_add {s s₁ : St} {e : Edge} {A : Key → Val} {attrs : List (Key × Val)}
    (h : EdgeStep s e A s₁) (hk : (attrs.map (·.1)).Nodup) (ha : iouW s e (obsAttrs attrs) = A)
    (ms : MaxOK s) (ms₁ : MaxOK s₁) : InvLaw E s (.addEdge e attrs) s₁ :=
  InvLaw.toE (InvLaw.of_closed GoodEdge goodEdge_closed (Or.inl ⟨e, attrs, A, rfl, h, hk, ha⟩))
    trivial ms ms₁

theorem law_of_edgeStep_del {s s₁ : St} {e : Edge} {A : Key → Val} {saved : List (Key × Val)}
    (h : EdgeStep s₁ e A s) (hk : (saved.map (·.1)).Nodup) (ho : obsAttrs saved = A)
    (ms : MaxOK s) (ms₁ : MaxOK s₁) : InvLaw E s (.delEdge e saved) s₁ :=
  InvLaw.toE (InvLaw.of_closed GoodEdge goodEdge_closed (Or.inr ⟨e, saved, A, rfl, h, hk, ho⟩))
    trivial ms ms₁

theorem law_of_tidStep {s s₁ : St} {start : Node} {oT nT : Nat} {oL nL : Option Nat}
    (h : TidStep s start oT nT oL nL s₁) : InvLaw E s (.updTid start oT nT oL nL) s₁ :=
  InvLaw.of_closed GoodTid goodTid_closed ⟨start, oT, nT, oL, nL, rfl, h⟩

/-- a law moves along `E` on either side -/
theorem law_congr {s s₁ t t₁ : St} {r : PrimRec} (h : InvLaw E s r s₁) (hs : E s t) (hs₁ : E s₁ t₁) :
    InvLaw E t r t₁ := h.congr E_isEquiv hs hs₁

/-- explicit undo / redo reading of a law over `E` -/
theorem law_undo_redo {s s₁ : St} {r : PrimRec} (h : InvLaw E s r s₁) :
    ∃ s₂ r', s₁.invPrim r = .ok (s₂, r') ∧ E s₂ s ∧ ∃ s₃ r'', s₂.invPrim r' = .ok (s₃, r'') ∧ E s₃ s₁ :=
  h.undo_redo E_isEquiv

end Ft.R3P
