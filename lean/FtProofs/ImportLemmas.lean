/-
  Helper lemmas for the import model (property C12).
  Part 1: Except-map, duplicate test, association lists.
  Part 2: name map validation, rename loop, combine loop  →  attributes of a node.
  Part 3: id resolution (integer ids, renumbering), links.
  Part 4: `finish` (structural validation).
-/
import FtModel.Import
namespace Ft.Import
open Ft

-- (for the `decide`-checked examples)
deriving instance DecidableEq for Except

/-! ## Part 1 -/

theorem mapE_ok_iff {α β ε} (f : α → Except ε β) (l : List α) (l' : List β) :
    mapE f l = .ok l' ↔ l.map f = l'.map Except.ok := by
  induction l generalizing l' with
  | nil =>
    cases l' with
    | nil => simp [mapE]
    | cons b bs => simp [mapE]
  | cons a as ih =>
    unfold mapE
    cases hfa : f a with
    | error e =>
      cases l' with
      | nil => simp
      | cons b bs => simp [hfa]
    | ok b =>
      cases hm : mapE f as with
      | error e =>
        cases l' with
        | nil => simp
        | cons b' bs =>
          simp only [List.map_cons, hfa, List.cons.injEq, Except.ok.injEq, reduceCtorEq, false_iff,
            not_and]
          intro _ h2
          have := (ih bs).mpr h2
          rw [hm] at this
          cases this
      | ok bs =>
        have hbs := (ih bs).mp hm
        cases l' with
        | nil => simp
        | cons b' bs' =>
          simp only [Except.ok.injEq, List.cons.injEq, List.map_cons, hfa]
          constructor
          · rintro ⟨rfl, rfl⟩
            exact ⟨rfl, hbs⟩
          · rintro ⟨rfl, h2⟩
            refine ⟨rfl, ?_⟩
            have := (ih bs').mpr h2
            rw [hm] at this
            cases this
            rfl

theorem mapE_error_of_mem {α β ε} (f : α → Except ε β) (l : List α) (a : α) (e : ε)
    (ha : a ∈ l) (hf : f a = .error e) : ∃ e', mapE f l = .error e' := by
  induction l with
  | nil => cases ha
  | cons x xs ih =>
    unfold mapE
    cases hx : f x with
    | error e1 => exact ⟨e1, rfl⟩
    | ok b =>
      rcases List.mem_cons.mp ha with rfl | hmem
      · rw [hf] at hx; cases hx
      · obtain ⟨e', he'⟩ := ih hmem
        simp only [he']
        exact ⟨e', rfl⟩

theorem mapE_length {α β ε} (f : α → Except ε β) (l : List α) (l' : List β)
    (h : mapE f l = .ok l') : l'.length = l.length := by
  have := congrArg List.length ((mapE_ok_iff f l l').mp h)
  simpa using this.symm

theorem mapE_getElem? {α β ε} (f : α → Except ε β) (l : List α) (l' : List β)
    (h : mapE f l = .ok l') (i : Nat) (a : α) (ha : l[i]? = some a) :
    ∃ b, l'[i]? = some b ∧ f a = .ok b := by
  have hm := (mapE_ok_iff f l l').mp h
  have h1 : (l.map f)[i]? = some (f a) := by simp [ha]
  rw [hm] at h1
  simp only [List.getElem?_map, Option.map_eq_some_iff] at h1
  obtain ⟨b, hb, hfb⟩ := h1
  exact ⟨b, hb, hfb.symm⟩

theorem mapE_mem_right {α β ε} (f : α → Except ε β) (l : List α) (l' : List β)
    (h : mapE f l = .ok l') (b : β) (hb : b ∈ l') : ∃ a ∈ l, f a = .ok b := by
  have hm := (mapE_ok_iff f l l').mp h
  have : Except.ok b ∈ l'.map (Except.ok (ε := ε)) := List.mem_map.mpr ⟨b, hb, rfl⟩
  rw [← hm] at this
  obtain ⟨a, ha, hfa⟩ := List.mem_map.mp this
  exact ⟨a, ha, hfa⟩

theorem mapE_mem_left {α β ε} (f : α → Except ε β) (l : List α) (l' : List β)
    (h : mapE f l = .ok l') (a : α) (ha : a ∈ l) : ∃ b ∈ l', f a = .ok b := by
  have hm := (mapE_ok_iff f l l').mp h
  have : f a ∈ l.map f := List.mem_map.mpr ⟨a, ha, rfl⟩
  rw [hm] at this
  obtain ⟨b, hb, hfb⟩ := List.mem_map.mp this
  exact ⟨b, hb, hfb.symm⟩

theorem nodupB_iff {α} [BEq α] [LawfulBEq α] (l : List α) : nodupB l = true ↔ l.Nodup := by
  induction l with
  | nil => simp [nodupB]
  | cons x xs ih =>
    simp only [nodupB, Bool.and_eq_true, Bool.not_eq_true', List.nodup_cons, ih]
    constructor
    · rintro ⟨h1, h2⟩
      refine ⟨?_, h2⟩
      intro hm
      have := List.contains_iff_mem.mpr hm
      rw [h1] at this
      cases this
    · rintro ⟨h1, h2⟩
      refine ⟨?_, h2⟩
      cases hc : xs.contains x with
      | false => rfl
      | true => exact absurd (List.contains_iff_mem.mp hc) h1

/-! ### association lists -/

theorem alook_append {β} (k : String) (l1 l2 : List (String × β)) :
    alook k (l1 ++ l2) = (alook k l1).orElse (fun _ => alook k l2) := by
  induction l1 with
  | nil => simp [alook]
  | cons p r ih =>
    obtain ⟨a, b⟩ := p
    simp only [List.cons_append, alook]
    split
    · simp
    · exact ih

theorem alook_aset {β} (k k' : String) (v : β) (l : List (String × β)) :
    alook k (aset k' v l) = if k' = k then some v else alook k l := by
  induction l with
  | nil =>
    simp only [aset, alook]
    by_cases h : k' = k <;> simp [h]
  | cons p r ih =>
    obtain ⟨a, b⟩ := p
    by_cases hak' : a = k'
    · subst hak'
      simp only [aset, beq_self_eq_true, if_true, alook]
      by_cases hk : a = k <;> simp [hk]
    · have : (a == k') = false := by simpa using hak'
      simp only [aset, this, alook, ih, Bool.false_eq_true, if_false]
      by_cases hk : k' = k
      · subst hk
        have : (a == k') = false := by simpa using hak'
        simp [this]
      · simp [hk]

theorem alook_adelAll {β} (k k' : String) (l : List (String × β)) :
    alook k (adelAll k' l) = if k' = k then none else alook k l := by
  induction l with
  | nil => simp [adelAll, alook]
  | cons p r ih =>
    obtain ⟨a, b⟩ := p
    unfold adelAll at ih ⊢
    by_cases hak' : a = k'
    · subst hak'
      simp only [List.filter, bne_self_eq_false]
      rw [ih]
      by_cases hk : a = k
      · simp [hk]
      · have : (a == k) = false := by simpa using hk
        simp [hk, alook, this]
    · have h1 : (a != k') = true := by simpa using hak'
      simp only [List.filter, h1, alook]
      rw [ih]
      by_cases hk : k' = k
      · subst hk
        have : (a == k') = false := by simpa using hak'
        simp [this]
      · simp [hk]

theorem alook_isSome_iff {β} (k : String) (l : List (String × β)) :
    (alook k l).isSome = true ↔ k ∈ l.map (·.1) := by
  induction l with
  | nil => simp [alook]
  | cons p r ih =>
    obtain ⟨a, b⟩ := p
    simp only [alook, List.map_cons, List.mem_cons]
    by_cases h : a = k
    · simp [h]
    · have : (a == k) = false := by simpa using h
      simp only [this, Bool.false_eq_true, if_false, ih]
      constructor
      · exact Or.inr
      · rintro (h1 | h1)
        · exact absurd h1.symm h
        · exact h1

theorem alook_eq_none_iff {β} (k : String) (l : List (String × β)) :
    alook k l = none ↔ k ∉ l.map (·.1) := by
  rw [← alook_isSome_iff]
  cases alook k l <;> simp

theorem mem_of_alook {β} (k : String) (v : β) (l : List (String × β)) (h : alook k l = some v) :
    (k, v) ∈ l := by
  induction l with
  | nil => simp [alook] at h
  | cons p r ih =>
    obtain ⟨a, b⟩ := p
    simp only [alook] at h
    by_cases hak : a = k
    · subst hak
      simp only [beq_self_eq_true, if_true, Option.some.injEq] at h
      subst h
      exact List.mem_cons_self
    · have : (a == k) = false := by simpa using hak
      simp only [this, Bool.false_eq_true, if_false] at h
      exact List.mem_cons_of_mem _ (ih h)

/-- in a dict (keys pairwise distinct) a binding is what lookup finds -/
theorem alook_of_mem_nodup {β} (k : String) (v : β) (l : List (String × β))
    (hn : (l.map (·.1)).Nodup) (h : (k, v) ∈ l) : alook k l = some v := by
  induction l with
  | nil => cases h
  | cons p r ih =>
    obtain ⟨a, b⟩ := p
    simp only [List.map_cons, List.nodup_cons] at hn
    rcases List.mem_cons.mp h with heq | hmem
    · cases heq
      simp [alook]
    · have hne : a ≠ k := by
        rintro rfl
        exact hn.1 (List.mem_map.mpr ⟨(a, v), hmem, rfl⟩)
      have : (a == k) = false := by simpa using hne
      simp only [alook, this, Bool.false_eq_true, if_false]
      exact ih hn.2 hmem

/-! ## Part 2 -/

/-- a DataFrame is rectangular: every header column has a cell in every row -/
def Rect (header : List String) (cells : Attrs) : Prop :=
  ∀ c ∈ header, (alook c cells).isSome = true

/-- the key mapping is unambiguous: no standard key twice; a column that is stacked into a
    list-mapped property is used once in its list, in no other list, and is not itself the
    name of a standard key of the mapping (decidable; the generators respect it) -/
def NameMapOK (nm : NameMap) : Prop :=
  (nm.map (·.1)).Nodup ∧
  ∀ e ∈ nm, e.2.comps.Nodup ∧
    ∀ c ∈ e.2.comps, ∀ e' ∈ nm, c ≠ e'.1 ∧ (e' ≠ e → c ∉ e'.2.comps)

instance (nm : NameMap) : Decidable (NameMapOK nm) := by
  unfold NameMapOK; exact inferInstance

theorem mem_flatten (nm : NameMap) (p : String × String) :
    p ∈ flatten nm ↔
      (p.1, Src.one p.2) ∈ nm ∨ ∃ k cs, (k, Src.many cs) ∈ nm ∧ p.1 ∈ cs ∧ p.2 = p.1 := by
  induction nm with
  | nil => simp [flatten]
  | cons e r ih =>
    obtain ⟨k, s⟩ := e
    cases s with
    | one c =>
      simp only [flatten, List.mem_cons, ih]
      constructor
      · rintro (h | h | ⟨k', cs, h1, h2, h3⟩)
        · subst h; exact Or.inl (Or.inl rfl)
        · exact Or.inl (Or.inr h)
        · exact Or.inr ⟨k', cs, Or.inr h1, h2, h3⟩
      · rintro ((h | h) | ⟨k', cs, h1 | h1, h2, h3⟩)
        · left
          obtain ⟨a, b⟩ := p
          simp only [Prod.mk.injEq, Src.one.injEq] at h
          obtain ⟨rfl, rfl⟩ := h
          rfl
        · exact Or.inr (Or.inl h)
        · cases h1
        · exact Or.inr (Or.inr ⟨k', cs, h1, h2, h3⟩)
    | many cs0 =>
      simp only [flatten, List.mem_append, List.mem_map, List.mem_cons, ih]
      constructor
      · rintro (⟨c, hc, rfl⟩ | h | ⟨k', cs, h1, h2, h3⟩)
        · exact Or.inr ⟨k, cs0, Or.inl rfl, hc, rfl⟩
        · exact Or.inl (Or.inr h)
        · exact Or.inr ⟨k', cs, Or.inr h1, h2, h3⟩
      · rintro ((h | h) | ⟨k', cs, h1 | h1, h2, h3⟩)
        · cases h
        · exact Or.inr (Or.inl h)
        · simp only [Prod.mk.injEq, Src.many.injEq] at h1
          obtain ⟨rfl, rfl⟩ := h1
          left
          obtain ⟨a, b⟩ := p
          simp only at h2 h3
          exact ⟨a, h2, by rw [h3]⟩
        · exact Or.inr (Or.inr ⟨k', cs, h1, h2, h3⟩)

/-- what the rename loop stores under `k` -/
def renameLook (header : List String) (cells : Attrs) (flat : List (String × String))
    (k : String) : Option Val :=
  (flat.find? (fun p => p.1 == k && header.contains p.2 && (alook p.2 cells).isSome)).bind
    (fun p => alook p.2 cells)

theorem alook_renameAux (header : List String) (cells : Attrs) (flat : List (String × String))
    (acc : Attrs) (k : String) :
    alook k (renameAux header cells flat acc) =
      (alook k acc).orElse (fun _ => renameLook header cells flat k) := by
  induction flat generalizing acc with
  | nil => simp [renameAux, renameLook]
  | cons p rest ih =>
    obtain ⟨tgt, src⟩ := p
    unfold renameAux
    by_cases hc : (header.contains src && (alook tgt acc).isNone) = true
    · rw [if_pos hc]
      simp only [Bool.and_eq_true] at hc
      cases hs : alook src cells with
      | none =>
        simp only
        rw [ih]
        congr 1
        funext _
        simp [renameLook, List.find?, hs]
      | some v =>
        simp only
        rw [ih, alook_append]
        cases hka : alook k acc with
        | some w => simp
        | none =>
          simp only [Option.orElse_none, alook]
          by_cases htk : tgt = k
          · subst htk
            simp only [renameLook, List.find?_cons, beq_self_eq_true, hc.1, hs, Option.isSome_some,
              Bool.and_self, Option.bind_some, if_true, Option.orElse_some]
          · have hb : (tgt == k) = false := by simpa using htk
            simp [renameLook, List.find?, hb]
    · rw [if_neg hc]
      rw [ih]
      cases hka : alook k acc with
      | some w => simp
      | none =>
        simp only [Option.orElse_none]
        have : (tgt == k && header.contains src && (alook src cells).isSome) = false := by
          cases h1 : header.contains src with
          | false => simp
          | true =>
            simp only [h1, Bool.true_and, Bool.and_eq_true, Option.isNone_iff_eq_none, not_and] at hc
            have hne : alook tgt acc ≠ none := hc
            have : tgt ≠ k := by
              rintro rfl
              exact hne hka
            have hb : (tgt == k) = false := by simpa using this
            simp [hb]
        simp only [renameLook, List.find?_cons, this]

theorem alook_renameRow (header : List String) (nm : NameMap) (cells : Attrs) (k : String) :
    alook k (renameRow header nm cells) = renameLook header cells (flatten nm) k := by
  unfold renameRow
  rw [alook_renameAux]
  simp [alook]

/-- if every pair of the flattened map with target `k` has source `c`, the rename loop copies
    column `c` to `k` -/
theorem renameLook_eq (header : List String) (cells : Attrs) (flat : List (String × String))
    (k c : String) (hmem : (k, c) ∈ flat) (hc : c ∈ header)
    (huniq : ∀ p ∈ flat, p.1 = k → p.2 = c) :
    renameLook header cells flat k = alook c cells := by
  unfold renameLook
  cases hf : flat.find? (fun p => p.1 == k && header.contains p.2 && (alook p.2 cells).isSome) with
  | some p =>
    have hp := List.find?_some hf
    have hm := List.mem_of_find?_eq_some hf
    simp only [Bool.and_eq_true, beq_iff_eq] at hp
    have := huniq p hm hp.1.1
    simp [this]
  | none =>
    have := List.find?_eq_none.mp hf (k, c) hmem
    simp only [beq_self_eq_true, Bool.true_and, Bool.and_eq_true, not_and,
      Bool.not_eq_true, Option.isSome_eq_false_iff, Option.isNone_iff_eq_none] at this
    have h2 := this (List.contains_iff_mem.mpr hc)
    simp [h2]

theorem key_unique {nm : NameMap} (hn : (nm.map (·.1)).Nodup) {k : String} {s s' : Src}
    (h1 : (k, s) ∈ nm) (h2 : (k, s') ∈ nm) : s = s' := by
  have a := alook_of_mem_nodup k s nm hn h1
  have b := alook_of_mem_nodup k s' nm hn h2
  rw [a] at b
  exact Option.some.inj b

/-- a single-mapped key receives its source column -/
theorem rename_one (header : List String) (nm : NameMap) (cells : Attrs) (hok : NameMapOK nm)
    (k c : String) (hk : (k, Src.one c) ∈ nm) (hc : c ∈ header) :
    alook k (renameRow header nm cells) = alook c cells := by
  rw [alook_renameRow]
  apply renameLook_eq header cells (flatten nm) k c ((mem_flatten nm (k, c)).mpr (Or.inl hk)) hc
  intro p hp hpk
  rcases (mem_flatten nm p).mp hp with h | ⟨k', cs, h1, h2, _⟩
  · rw [hpk] at h
    have := key_unique hok.1 hk h
    exact (Src.one.inj this).symm
  · -- a stacked column named like the key `k`: excluded
    have := (hok.2 (k', .many cs) h1).2 p.1 h2 (k, .one c) hk
    exact absurd hpk this.1

/-- a column that is to be stacked keeps its own name -/
theorem rename_comp (header : List String) (nm : NameMap) (cells : Attrs) (hok : NameMapOK nm)
    (k : String) (cs : List String) (hk : (k, Src.many cs) ∈ nm) (c : String) (hc : c ∈ cs)
    (hh : c ∈ header) :
    alook c (renameRow header nm cells) = alook c cells := by
  rw [alook_renameRow]
  apply renameLook_eq header cells (flatten nm) c c
    ((mem_flatten nm (c, c)).mpr (Or.inr ⟨k, cs, hk, hc, rfl⟩)) hh
  intro p hp hpc
  rcases (mem_flatten nm p).mp hp with h | ⟨_, _, _, _, h3⟩
  · have := (hok.2 (k, .many cs) hk).2 c hc (p.1, .one p.2) h
    exact absurd hpc.symm this.1
  · rw [h3, hpc]

theorem alook_popKeys (ks : List String) (a : Attrs) (k : String) :
    alook k (popKeys ks a) = if k ∈ ks then none else alook k a := by
  unfold popKeys
  induction ks generalizing a with
  | nil => simp
  | cons x xs ih =>
    simp only [List.foldl_cons, List.mem_cons]
    rw [ih, alook_adelAll]
    by_cases h1 : k ∈ xs
    · simp [h1]
    · by_cases h2 : x = k
      · simp [h2]
      · have : ¬ k = x := fun h => h2 h.symm
        simp [h1, h2, this]

/-! ### combine -/

theorem alook_delComps (key : String) (cs : List String) (props : Attrs) (k : String) :
    alook k (delComps key cs props) = if k ∈ cs ∧ k ≠ key then none else alook k props := by
  unfold delComps
  induction cs generalizing props with
  | nil => simp
  | cons c r ih =>
    simp only [List.foldl_cons, List.mem_cons]
    rw [ih]
    by_cases hck : c = key
    · subst hck
      simp only [bne_self_eq_false, Bool.false_eq_true, if_false]
      by_cases h1 : k ∈ r ∧ k ≠ c
      · have : (k = c ∨ k ∈ r) ∧ k ≠ c := ⟨Or.inr h1.1, h1.2⟩
        simp [h1, this]
      · have : ¬ ((k = c ∨ k ∈ r) ∧ k ≠ c) := by
          rintro ⟨h | h, h2⟩
          · exact h2 h
          · exact h1 ⟨h, h2⟩
        simp [h1, this]
    · have hb : (c != key) = true := by simpa using hck
      simp only [hb, if_true, alook_adelAll]
      by_cases h1 : k ∈ r ∧ k ≠ key
      · have : (k = c ∨ k ∈ r) ∧ k ≠ key := ⟨Or.inr h1.1, h1.2⟩
        simp [h1, this]
      · by_cases h2 : c = k
        · subst h2
          simp [h1, hck]
        · have h3 : ¬ ((k = c ∨ k ∈ r) ∧ k ≠ key) := by
            rintro ⟨h | h, h4⟩
            · exact h2 h.symm
            · exact h1 ⟨h, h4⟩
          simp [h1, h2, h3]

/-- a step of the combine loop leaves alone every key it neither writes nor deletes -/
theorem combineStep_frame (props : Attrs) (e : String × Src) (k : String)
    (h1 : k ≠ e.1 ∨ e.2.comps = []) (h2 : k ∉ e.2.comps) :
    alook k (combineStep props e) = alook k props := by
  obtain ⟨key, s⟩ := e
  cases s with
  | one c => rfl
  | many cs =>
    simp only [Src.comps] at h1 h2
    unfold combineStep
    simp only
    split
    · rfl
    · split
      · rw [alook_delComps]
        have : ¬ (k ∈ cs ∧ k ≠ key) := fun h => h2 h.1
        rw [if_neg this, alook_aset]
        rcases h1 with h | h
        · have : ¬ key = k := fun x => h x.symm
          simp [this]
        · subst h
          simp at *
      · rfl

theorem combine_frame (l : NameMap) (props : Attrs) (k : String)
    (h : ∀ e ∈ l, (k ≠ e.1 ∨ e.2.comps = []) ∧ k ∉ e.2.comps) :
    alook k (l.foldl combineStep props) = alook k props := by
  induction l generalizing props with
  | nil => rfl
  | cons e r ih =>
    simp only [List.foldl_cons]
    rw [ih (combineStep props e) (fun e' he' => h e' (List.mem_cons_of_mem _ he'))]
    exact combineStep_frame props e k (h e List.mem_cons_self).1 (h e List.mem_cons_self).2

/-- the step of a list-mapped key stores the stacked columns under the key -/
theorem combineStep_many (props : Attrs) (k : String) (cs : List String) (hne : cs ≠ [])
    (hall : ∀ c ∈ cs, (alook c props).isSome = true) :
    alook k (combineStep props (k, .many cs)) = some (stack cs props) := by
  unfold combineStep
  simp only
  have h1 : cs.isEmpty = false := by
    cases cs with
    | nil => exact absurd rfl hne
    | cons _ _ => rfl
  have h2 : cs.all (fun c => (alook c props).isSome) = true := List.all_eq_true.mpr hall
  simp only [h1, Bool.false_eq_true, if_false, h2, if_true]
  rw [alook_delComps]
  have : ¬ (k ∈ cs ∧ k ≠ k) := fun h => h.2 rfl
  rw [if_neg this, alook_aset]
  simp

theorem flatMap_congr' {α β} (l : List α) (f g : α → List β) (h : ∀ a ∈ l, f a = g a) :
    l.flatMap f = l.flatMap g := by
  induction l with
  | nil => rfl
  | cons x xs ih =>
    simp only [List.flatMap_cons]
    rw [h x List.mem_cons_self, ih (fun a ha => h a (List.mem_cons_of_mem _ ha))]

theorem stack_congr (cs : List String) (p q : Attrs) (h : ∀ c ∈ cs, alook c p = alook c q) :
    stack cs p = stack cs q := by
  unfold stack
  congr 1
  exact flatMap_congr' cs _ _ (fun c hc => by rw [h c hc])

/-- a single-mapped key survives the combine loop -/
theorem combine_one (nm : NameMap) (hok : NameMapOK nm) (props : Attrs) (k c : String)
    (hk : (k, Src.one c) ∈ nm) : alook k (combine nm props) = alook k props := by
  unfold combine
  apply combine_frame
  intro e he
  constructor
  · by_cases h : k = e.1
    · right
      obtain ⟨k', s⟩ := e
      simp only at h
      subst h
      have := key_unique hok.1 hk he
      subst this
      rfl
    · exact Or.inl h
  · intro hmem
    exact ((hok.2 e he).2 k hmem (k, .one c) hk).1 rfl

/-- a list-mapped key ends up holding its columns, stacked in mapped order -/
theorem combine_many (nm : NameMap) (hok : NameMapOK nm) (props : Attrs) (k : String)
    (cs : List String) (hk : (k, Src.many cs) ∈ nm) (hne : cs ≠ [])
    (hall : ∀ c ∈ cs, (alook c props).isSome = true) :
    alook k (combine nm props) = some (stack cs props) := by
  obtain ⟨l1, l2, hsplit⟩ := List.append_of_mem hk
  have hkeys := hok.1
  rw [hsplit, List.map_append, List.map_cons] at hkeys
  have hdis := List.nodup_append.mp hkeys
  have hnk2 : k ∉ l2.map (·.1) := (List.nodup_cons.mp hdis.2.1).1
  have hnk1 : k ∉ l1.map (·.1) := fun h => hdis.2.2 k h k List.mem_cons_self rfl
  have hmem1 : ∀ e ∈ l1, e ∈ nm := fun e he => by rw [hsplit]; exact List.mem_append_left _ he
  have hmem2 : ∀ e ∈ l2, e ∈ nm := fun e he => by
    rw [hsplit]; exact List.mem_append_right _ (List.mem_cons_of_mem _ he)
  -- the columns of `cs` are untouched by the steps before
  have hpre : ∀ c ∈ cs, alook c (l1.foldl combineStep props) = alook c props := by
    intro c hc
    apply combine_frame
    intro e he
    have hne' : e ≠ (k, .many cs) := by
      rintro rfl
      exact hnk1 (List.mem_map.mpr ⟨_, he, rfl⟩)
    have := (hok.2 (k, .many cs) hk).2 c hc e (hmem1 e he)
    exact ⟨Or.inl this.1, this.2 hne'⟩
  unfold combine
  rw [hsplit, List.foldl_append, List.foldl_cons]
  rw [combine_frame l2 _ k]
  · rw [combineStep_many _ k cs hne (fun c hc => by rw [hpre c hc]; exact hall c hc)]
    rw [stack_congr cs _ props hpre]
  · intro e he
    constructor
    · left
      intro h
      exact hnk2 (List.mem_map.mpr ⟨e, he, h.symm⟩)
    · intro hmem
      exact ((hok.2 e (hmem2 e he)).2 k hmem (k, .many cs) hk).1 rfl

/-- attributes of a node, single-mapped key -/
theorem nodeAttrs_one (header : List String) (nm : NameMap) (pops : List String) (cells : Attrs)
    (hok : NameMapOK nm) (k c : String) (hk : (k, Src.one c) ∈ nm) (hc : c ∈ header)
    (hp : k ∉ pops) :
    alook k (nodeAttrs header nm pops cells) = alook c cells := by
  unfold nodeAttrs
  rw [combine_one nm hok _ k c hk, alook_popKeys, if_neg hp, rename_one header nm cells hok k c hk hc]

/-- attributes of a node, list-mapped key -/
theorem nodeAttrs_many (header : List String) (nm : NameMap) (pops : List String) (cells : Attrs)
    (hok : NameMapOK nm) (hrect : Rect header cells) (k : String) (cs : List String)
    (hk : (k, Src.many cs) ∈ nm) (hne : cs ≠ []) (hc : ∀ c ∈ cs, c ∈ header)
    (hp : ∀ p ∈ pops, p ∈ nm.map (·.1)) :
    alook k (nodeAttrs header nm pops cells) = some (stack cs cells) := by
  unfold nodeAttrs
  have hcol : ∀ c ∈ cs, alook c (popKeys pops (renameRow header nm cells)) = alook c cells := by
    intro c hcm
    rw [alook_popKeys]
    have : c ∉ pops := by
      intro hin
      obtain ⟨e', he', hke⟩ := List.mem_map.mp (hp c hin)
      exact ((hok.2 (k, .many cs) hk).2 c hcm e' he').1 hke.symm
    rw [if_neg this, rename_comp header nm cells hok k cs hk c hcm (hc c hcm)]
  rw [combine_many nm hok _ k cs hk hne (fun c hcm => by rw [hcol c hcm]; exact hrect c (hc c hcm))]
  rw [stack_congr cs _ cells hcol]

/-! ## Part 3: name-map validation, ids -/

theorem vnm_ok (req header sp : List String) (nm : NameMap)
    (h : validateNameMap req header sp nm = .ok ()) :
    (∀ k ∈ req, (alook k nm).isSome = true) ∧ (alook "pos" nm).isSome = true ∧
      (header ≠ [] → ∀ e ∈ nm, ∀ c ∈ e.2.cols, c ∈ header) := by
  unfold validateNameMap at h
  split at h
  · cases h
  · split at h
    · cases h
    · rename_i hreq
      simp only [List.any_eq_true, not_exists, not_and, Bool.not_eq_true,
        Option.isNone_eq_false_iff] at hreq
      split at h
      · cases h
      · rename_i hpos
        split at h
        · cases h
        · rename_i hcol
          refine ⟨fun k hk => hreq k hk, ?_, ?_⟩
          · unfold posCheck at hpos
            cases hp : alook "pos" nm with
            | none => simp [hp] at hpos
            | some v => rfl
          · intro hne e he c hc
            simp only [Bool.not_eq_true', Bool.not_eq_false] at hcol
            unfold colsOk at hcol
            have h1 : header.isEmpty = false := by
              cases header with
              | nil => exact absurd rfl hne
              | cons _ _ => rfl
            simp only [h1, Bool.false_or, List.all_eq_true] at hcol
            exact List.contains_iff_mem.mp (hcol e he c hc)

theorem vnm_err_required (req header sp : List String) (nm : NameMap) (k : String)
    (hk : k ∈ req) (hn : alook k nm = none) : ∃ e, validateNameMap req header sp nm = .error e := by
  unfold validateNameMap
  split
  · exact ⟨_, rfl⟩
  · have : req.any (fun k => (alook k nm).isNone) = true :=
      List.any_eq_true.mpr ⟨k, hk, by simp [hn]⟩
    rw [if_pos this]
    exact ⟨_, rfl⟩

theorem vnm_err_pos (req header sp : List String) (nm : NameMap)
    (hn : alook "pos" nm = none) : ∃ e, validateNameMap req header sp nm = .error e := by
  unfold validateNameMap
  split
  · exact ⟨_, rfl⟩
  · split
    · exact ⟨_, rfl⟩
    · have : posCheck nm = some .posMissing := by simp [posCheck, hn]
      simp only [this]
      exact ⟨_, rfl⟩

theorem vnm_err_column (req header sp : List String) (nm : NameMap) (e : String × Src) (c : String)
    (hne : header ≠ []) (he : e ∈ nm) (hc : c ∈ e.2.cols) (hnot : c ∉ header) :
    ∃ err, validateNameMap req header sp nm = .error err := by
  by_cases hok : ∃ err, validateNameMap req header sp nm = .error err
  · exact hok
  · exfalso
    cases hv : validateNameMap req header sp nm with
    | error err => exact hok ⟨err, hv⟩
    | ok u =>
      cases u
      exact hnot ((vnm_ok req header sp nm hv).2.2 hne e he c hc)

/-! ### renumbering -/

theorem uniqAux_nodup (ts seen : List Tok) (h : (seen ++ ts).Nodup) :
    uniqAux ts seen = seen ++ ts := by
  induction ts generalizing seen with
  | nil => simp [uniqAux]
  | cons t r ih =>
    unfold uniqAux
    have hnot : t ∉ seen := by
      intro hm
      have := (List.nodup_append.mp h).2.2 t hm t List.mem_cons_self
      exact this rfl
    have hc : seen.contains t = false := by
      cases hcc : seen.contains t with
      | false => rfl
      | true => exact absurd (List.contains_iff_mem.mp hcc) hnot
    rw [hc]
    simp only [Bool.false_eq_true, if_false]
    rw [ih (seen ++ [t]) (by simpa using h)]
    simp

theorem uniq_nodup (ids : List Tok) (h : ids.Nodup) : uniq ids = ids := by
  unfold uniq
  rw [uniqAux_nodup ids [] (by simpa using h)]
  rfl

theorem alook_zipIdx (l : List Tok) (n i : Nat) (t : Tok) (hn : l.Nodup) (hi : l[i]? = some t) :
    alook t ((l.zipIdx n).map (fun p => (p.1, (p.2 : Int) + 1))) = some ((n + i : Nat) + 1) := by
  induction l generalizing n i with
  | nil => simp at hi
  | cons x xs ih =>
    simp only [List.zipIdx_cons, List.map_cons, alook]
    cases i with
    | zero =>
      simp only [List.getElem?_cons_zero, Option.some.injEq] at hi
      subst hi
      simp
    | succ j =>
      simp only [List.getElem?_cons_succ] at hi
      have hx : x ≠ t := by
        rintro rfl
        exact (List.nodup_cons.mp hn).1 (List.mem_of_getElem? hi)
      have hb : (x == t) = false := by simpa using hx
      simp only [hb, Bool.false_eq_true, if_false]
      rw [ih (n + 1) j (List.nodup_cons.mp hn).2 hi]
      congr 2
      omega

theorem alook_idMapping (ids : List Tok) (hn : ids.Nodup) (i : Nat) (t : Tok)
    (hi : ids[i]? = some t) : alook t (idMapping ids) = some ((i : Int) + 1) := by
  unfold idMapping
  rw [uniq_nodup ids hn, alook_zipIdx ids 0 i t hn hi]
  simp

theorem idMapping_keys (ids : List Tok) (hn : ids.Nodup) : (idMapping ids).map (·.1) = ids := by
  unfold idMapping
  rw [uniq_nodup ids hn]
  simp only [List.map_map]
  have : ((fun p : Tok × Int => p.1) ∘ fun p : Tok × Nat => (p.1, (p.2 : Int) + 1)) = (·.1) := rfl
  rw [this]
  exact List.zipIdx_map_fst 0 ids

/-! ### id resolution -/

def tableIds (t : Table) : List Tok := t.rows.map (·.id)

/-- the integer the import gives to the source id token `tok` -/
def newId (t : Table) (tok : Tok) : Option Int :=
  if t.intIds then tokInt tok else alook tok (idMapping (tableIds t))

/-- what the import makes of a parent cell -/
def resolveParent (t : Table) (p : Option Tok) : Except ErrKind (Option Int) :=
  if t.intIds then parseParent p else mapParent (idMapping (tableIds t)) p

theorem loadRows_spec (t : Table) (irows : List IRow) (h : loadRows t = .ok irows) :
    (tableIds t).Nodup ∧ irows.length = t.rows.length ∧
    (∀ (i : Nat) (r : Row), t.rows[i]? = some r → ∃ ir, irows[i]? = some ir ∧
      some ir.id = newId t r.id ∧ ir.cells = r.cells ∧ resolveParent t r.parent = .ok ir.parent) ∧
    (∀ ir ∈ irows, ∃ r ∈ t.rows, some ir.id = newId t r.id ∧ ir.cells = r.cells ∧
      resolveParent t r.parent = .ok ir.parent) := by
  unfold loadRows at h
  simp only at h
  split at h
  · cases h
  · rename_i hnd
    have hnodup : (tableIds t).Nodup := by
      unfold tableIds
      apply (nodupB_iff _).mp
      simpa using hnd
    cases hint : t.intIds with
    | true =>
      rw [hint] at h
      simp only [if_true] at h
      have key : ∀ (r : Row) (ir : IRow), resolveInt r = .ok ir →
          some ir.id = newId t r.id ∧ ir.cells = r.cells ∧ resolveParent t r.parent = .ok ir.parent := by
        intro r ir hr
        unfold resolveInt at hr
        unfold newId resolveParent
        rw [hint]
        simp only [if_true]
        unfold parseId at hr
        cases hti : tokInt r.id with
        | none => simp [hti] at hr
        | some k =>
          simp only [hti] at hr
          cases hpp : parseParent r.parent with
          | error e => simp [hpp] at hr
          | ok p =>
            simp only [hpp, Except.ok.injEq] at hr
            subst hr
            exact ⟨rfl, rfl, rfl⟩
      refine ⟨hnodup, mapE_length _ _ _ h, ?_, ?_⟩
      · intro i r hr
        obtain ⟨ir, h1, h2⟩ := mapE_getElem? _ _ _ h i r hr
        exact ⟨ir, h1, key r ir h2⟩
      · intro ir hir
        obtain ⟨r, h1, h2⟩ := mapE_mem_right _ _ _ h ir hir
        exact ⟨r, h1, key r ir h2⟩
    | false =>
      rw [hint] at h
      simp only [Bool.false_eq_true, if_false] at h
      have key : ∀ r ∈ t.rows, ∀ ir : IRow, resolveMapped (idMapping (t.rows.map (·.id))) r = .ok ir →
          some ir.id = newId t r.id ∧ ir.cells = r.cells ∧ resolveParent t r.parent = .ok ir.parent := by
        intro r hrm ir hr
        unfold resolveMapped at hr
        unfold newId resolveParent
        rw [hint]
        simp only [Bool.false_eq_true, if_false]
        cases hmp : mapParent (idMapping (t.rows.map (·.id))) r.parent with
        | error e => simp [hmp] at hr
        | ok p =>
          simp only [hmp, Except.ok.injEq] at hr
          subst hr
          obtain ⟨i, hi⟩ := List.getElem?_of_mem (List.mem_map.mpr ⟨r, hrm, rfl⟩ : r.id ∈ tableIds t)
          have := alook_idMapping (tableIds t) hnodup i r.id hi
          unfold tableIds at this ⊢
          refine ⟨?_, rfl, hmp⟩
          simp [this]
      refine ⟨hnodup, mapE_length _ _ _ h, ?_, ?_⟩
      · intro i r hr
        obtain ⟨ir, h1, h2⟩ := mapE_getElem? _ _ _ h i r hr
        exact ⟨ir, h1, key r (List.mem_of_getElem? hr) ir h2⟩
      · intro ir hir
        obtain ⟨r, h1, h2⟩ := mapE_mem_right _ _ _ h ir hir
        exact ⟨r, h1, key r h1 ir h2⟩

theorem mem_linksOf (rows : List IRow) (u v : Int) :
    (u, v) ∈ linksOf rows ↔ ∃ ir ∈ rows, ir.parent = some u ∧ ir.id = v := by
  unfold linksOf
  simp only [List.mem_filterMap, Option.map_eq_some_iff, Prod.mk.injEq]
  constructor
  · rintro ⟨ir, hir, p, hp, rfl, rfl⟩
    exact ⟨ir, hir, hp, rfl⟩
  · rintro ⟨ir, hir, hp, rfl⟩
    exact ⟨ir, hir, u, hp, rfl, rfl⟩

theorem parseParent_some (p : Tok) (u : Int) :
    parseParent (some p) = .ok (some u) ↔ isNoParent p = false ∧ tokInt p = some u := by
  unfold parseParent
  cases hn : isNoParent p with
  | true => simp [hn]
  | false =>
    cases ht : tokInt p with
    | none => simp [hn, ht]
    | some k => simp [hn, ht]

theorem mapParent_some (m : List (Tok × Int)) (p : Tok) (u : Int) :
    mapParent m (some p) = .ok (some u) ↔ alook p m = some u := by
  unfold mapParent
  cases ha : alook p m with
  | some k => simp [ha]
  | none =>
    cases hn : isNoParent p <;> simp [ha, hn]

/-! ## Part 4: `finish` -/

theorem validateGraph_ok (ids : List Int) (edges : List (Int × Int))
    (h : validateGraph ids edges = .ok ()) :
    ids.Nodup ∧ (∀ e ∈ edges, e.1 ∈ ids ∧ e.2 ∈ ids ∧ e.1 ≠ e.2) ∧ edges.Nodup := by
  unfold validateGraph at h
  split at h
  · cases h
  · rename_i h1
    split at h
    · cases h
    · rename_i h2
      split at h
      · cases h
      · rename_i h3
        split at h
        · cases h
        · rename_i h4
          simp only [Bool.not_eq_true', Bool.not_eq_false] at h1 h4
          simp only [List.any_eq_true, Bool.or_eq_true, Bool.not_eq_true', not_exists, not_and,
            not_or, Bool.not_eq_false, beq_iff_eq] at h2 h3
          refine ⟨(nodupB_iff _).mp h1, ?_, (nodupB_iff _).mp h4⟩
          intro e he
          have := h2 e he
          exact ⟨List.contains_iff_mem.mp this.1, List.contains_iff_mem.mp this.2, h3 e he⟩

theorem validateGraph_err (ids : List Int) (edges : List (Int × Int))
    (h : ¬ ids.Nodup ∨ (∃ e ∈ edges, e.1 ∉ ids ∨ e.2 ∉ ids) ∨ (∃ e ∈ edges, e.1 = e.2)) :
    ∃ err, validateGraph ids edges = .error err := by
  cases hv : validateGraph ids edges with
  | error err => exact ⟨err, rfl⟩
  | ok u =>
    exfalso
    cases u
    obtain ⟨h1, h2, _⟩ := validateGraph_ok ids edges hv
    rcases h with h | ⟨e, he, h | h⟩ | ⟨e, he, h⟩
    · exact h h1
    · exact h (h2 e he).1
    · exact h (h2 e he).2.1
    · exact (h2 e he).2.2 h

theorem finish_ok (sp : List String) (d : Option Nat) (nodes : List (Int × Attrs))
    (edges : List (Int × Int)) (g : Graph) (h : finish sp d nodes edges = .ok g) :
    g = ⟨nodes, edges⟩ ∧ (nodes.map (·.1)).Nodup ∧
      (∀ e ∈ edges, e.1 ∈ nodes.map (·.1) ∧ e.2 ∈ nodes.map (·.1) ∧ e.1 ≠ e.2) ∧ edges.Nodup := by
  unfold finish at h
  split at h
  · cases h
  · cases hv : validateGraph (nodes.map (·.1)) edges with
    | error e => simp [hv] at h
    | ok u =>
      cases u
      simp only [hv, Except.ok.injEq] at h
      exact ⟨h.symm, validateGraph_ok _ _ hv⟩

theorem finish_err (sp : List String) (d : Option Nat) (nodes : List (Int × Attrs))
    (edges : List (Int × Int))
    (h : ¬ (nodes.map (·.1)).Nodup ∨ (∃ e ∈ edges, e.1 ∉ nodes.map (·.1) ∨ e.2 ∉ nodes.map (·.1)) ∨
      (∃ e ∈ edges, e.1 = e.2)) :
    ∃ err, finish sp d nodes edges = .error err := by
  unfold finish
  split
  · exact ⟨_, rfl⟩
  · obtain ⟨err, he⟩ := validateGraph_err _ _ h
    simp only [he]
    exact ⟨err, rfl⟩

/-! ## Part 5: the pipelines, unfolded -/

theorem importTable_ok (sp : List String) (nm : NameMap) (t : Table) (g : Graph)
    (h : importTable sp nm t = .ok g) :
    ∃ irows, validateNameMap csvRequired t.header sp nm = .ok () ∧ loadRows t = .ok irows ∧
      g.nodes = irows.map (fun r => (r.id, nodeAttrs t.header nm csvPops r.cells)) ∧
      g.edges = linksOf irows ∧ (g.nodes.map (·.1)).Nodup ∧
      (∀ e ∈ g.edges, e.1 ∈ g.nodes.map (·.1) ∧ e.2 ∈ g.nodes.map (·.1) ∧ e.1 ≠ e.2) ∧
      g.edges.Nodup := by
  unfold importTable at h
  cases hv : validateNameMap csvRequired t.header sp nm with
  | error e => simp [hv] at h
  | ok u =>
    cases u
    cases hl : loadRows t with
    | error e => simp [hv, hl] at h
    | ok irows =>
      simp only [hv, hl] at h
      unfold importRows at h
      obtain ⟨hg, h1, h2, h3⟩ := finish_ok _ _ _ _ _ h
      subst hg
      exact ⟨irows, rfl, rfl, rfl, rfl, h1, h2, h3⟩

theorem importTable_err_of_rows (sp : List String) (nm : NameMap) (t : Table)
    (h : ∀ irows, loadRows t = .ok irows →
      ∃ err, importRows sp nm t.header irows = .error err) :
    ∃ err, importTable sp nm t = .error err := by
  unfold importTable
  cases hv : validateNameMap csvRequired t.header sp nm with
  | error e => exact ⟨e, rfl⟩
  | ok u =>
    cases hl : loadRows t with
    | error e => exact ⟨e, rfl⟩
    | ok irows =>
      obtain ⟨err, he⟩ := h irows hl
      exact ⟨err, by simp only [he]⟩

theorem importGeff_ok (sp : List String) (nm : NameMap) (header : List String)
    (nodes : List (Int × Attrs)) (edges : List (Int × Int)) (g : Graph)
    (h : importGeff sp nm header nodes edges = .ok g) :
    validateNameMap ["time"] header sp nm = .ok () ∧
      g.nodes = nodes.map (fun n => (n.1, nodeAttrs header nm [] n.2)) ∧ g.edges = edges ∧
      (nodes.map (·.1)).Nodup ∧
      (∀ e ∈ edges, e.1 ∈ nodes.map (·.1) ∧ e.2 ∈ nodes.map (·.1) ∧ e.1 ≠ e.2) ∧ edges.Nodup := by
  unfold importGeff at h
  cases hv : validateNameMap ["time"] header sp nm with
  | error e => simp [hv] at h
  | ok u =>
    cases u
    simp only [hv] at h
    obtain ⟨hg, h1, h2, h3⟩ := finish_ok _ _ _ _ _ h
    subst hg
    simp only [List.map_map] at h1 h2
    have e1 : (Except.ok () : Except ErrKind Unit) = .ok () := rfl
    have e2 : List.map (fun n : Int × Attrs => (n.1, combine nm n.2))
        (List.map (fun n : Int × Attrs => (n.1, renameRow header nm n.2)) nodes) =
        nodes.map (fun n => (n.1, nodeAttrs header nm [] n.2)) := by
      simp only [List.map_map]
      apply List.map_congr_left
      intro n _
      simp [nodeAttrs, popKeys]
    have e3 : (nodes.map (·.1)).Nodup := by simpa [Function.comp_def] using h1
    have e4 : ∀ e ∈ edges, e.1 ∈ nodes.map (·.1) ∧ e.2 ∈ nodes.map (·.1) ∧ e.1 ≠ e.2 := by
      simpa [Function.comp_def] using h2
    exact ⟨e1, e2, rfl, e3, e4, h3⟩

end Ft.Import
