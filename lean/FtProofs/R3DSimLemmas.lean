/-
  FtProofs.R3DSimLemmas — package R3D: simulation lemmas. The composite user actions
  `uDeleteNode` / `uAddNode` commute with swapping the label array (`St.withSeg`), because they read
  the array only through the IoU of `pAddEdge` and the pixel writes of `pDelNode` / `pAddNode`.
-/
import FtProofs.R2GLemmas
import FtProofs.InverseLemmas
namespace Ft.R3D
open Ft Ft.St List

/-- arrays of the same shape that agree, label by label, on every frame other than `t0` -/
structure OffFrame (t0 : Nat) (A B : Seg) : Prop where
  frame : A.frame = B.frame
  len : A.data.length = B.data.length
  off : ∀ t, t ≠ t0 → ∀ l, A.offsetsOf t l = B.offsetsOf t l

/-! ### 1. combinators -/

def liftP (A : Seg) : Except Err (St × PrimRec) → Except Err (St × PrimRec)
  | .ok (s, r) => .ok (s.withSeg A, r)
  | .error e => .error e

def liftU (A : Seg) (o : UOut) : UOut := (o.1.withSeg A, o.2)

/-- a primitive that neither reads nor writes the array -/
def BlindP (f : St → Except Err (St × PrimRec)) : Prop := ∀ A st, f (st.withSeg A) = liftP A (f st)
/-- a user action that neither reads nor writes the array -/
def BlindU (f : St → UOut) : Prop := ∀ A st, f (st.withSeg A) = liftU A (f st)

@[simp] theorem liftU_fst (A : Seg) (o : UOut) : (liftU A o).1 = o.1.withSeg A := rfl
@[simp] theorem liftU_snd (A : Seg) (o : UOut) : (liftU A o).2 = o.2 := rfl

/-- one step of `thenPrim` on the swapped state, the primitive being blind *at this state* -/
theorem thenPrim_lift_at {A : Seg} {acc : UOut} {f : St → Except Err (St × PrimRec)}
    (hf : f (acc.1.withSeg A) = liftP A (f acc.1)) :
    thenPrim (liftU A acc) f = liftU A (thenPrim acc f) := by
  unfold St.thenPrim
  simp only [liftU_fst, liftU_snd, hf]
  rcases acc.2 with e | recs
  · rfl
  · simp only
    rcases f acc.1 with e | ⟨s', r⟩ <;> rfl

theorem thenPrim_lift {A : Seg} {acc : UOut} {f : St → Except Err (St × PrimRec)} (hf : BlindP f) :
    thenPrim (liftU A acc) f = liftU A (thenPrim acc f) := thenPrim_lift_at (hf A acc.1)

theorem thenUser_lift {A : Seg} {acc : UOut} {f : St → UOut} (hf : BlindU f) :
    thenUser (liftU A acc) f = liftU A (thenUser acc f) := by
  unfold St.thenUser
  simp only [liftU_fst, liftU_snd, hf A acc.1]
  rcases acc.2 with e | recs
  · rfl
  · simp only
    rcases (f acc.1).2 with e | r <;> rfl

theorem foldl_lift {α} {A : Seg} (F : UOut → α → UOut)
    (hF : ∀ acc x, F (liftU A acc) x = liftU A (F acc x)) (l : List α) (a : UOut) :
    l.foldl F (liftU A a) = liftU A (l.foldl F a) := by
  induction l generalizing a with
  | nil => rfl
  | cons x l ih => rw [foldl_cons, foldl_cons, hF, ih]

/-! ### 2. the blind primitives -/

theorem BlindP.pDelEdge (e : Edge) : BlindP (fun st => st.pDelEdge e) := by
  intro A st
  show (st.withSeg A).pDelEdge e = liftP A (st.pDelEdge e)
  unfold St.pDelEdge
  show (match st.findEdge e with | none => _ | some r => _) = _
  rcases st.findEdge e with _ | r <;> rfl

def wsAcc (A : Seg) (a : WalkAcc) : WalkAcc := { a with s := a.s.withSeg A }

theorem walkNode_ws (A : Seg) (old new : Nat) (nl : Option Nat) (u : Bool) (a : WalkAcc) (n : Node) :
    walkNode old new nl u (wsAcc A a) n = wsAcc A (walkNode old new nl u a n) := by
  rcases a with ⟨s, flag, tN, lN, nx⟩
  cases u <;> cases flag
  · rfl
  · simp only [walkNode, wsAcc]
    show _ = _
    by_cases h : (s.tidOf n == some old) = true
    · have h' : ((s.withSeg A).tidOf n == some old) = true := h
      simp only [h, h', if_true, Bool.false_eq_true, if_false]; rfl
    · have h' : ¬ ((s.withSeg A).tidOf n == some old) = true := h
      simp only [h, h', if_true, Bool.false_eq_true, if_false]; rfl
  · rfl
  · simp only [walkNode, wsAcc]
    by_cases h : ((s.setLin n nl).tidOf n == some old) = true
    · have h' : (((s.withSeg A).setLin n nl).tidOf n == some old) = true := h
      simp only [h, h', if_true]; rfl
    · have h' : ¬ (((s.withSeg A).setLin n nl).tidOf n == some old) = true := h
      simp only [h, h', if_true, Bool.false_eq_true, if_false]; rfl

theorem foldl_walkNode_ws (A : Seg) (old new : Nat) (nl : Option Nat) (u : Bool) (l : List Node)
    (a : WalkAcc) :
    l.foldl (walkNode old new nl u) (wsAcc A a) = wsAcc A (l.foldl (walkNode old new nl u) a) := by
  induction l generalizing a with
  | nil => rfl
  | cons x l ih => rw [foldl_cons, foldl_cons, walkNode_ws, ih]

theorem walkLevels_ws (A : Seg) (old new : Nat) (nl : Option Nat) (u : Bool) (fuel : Nat)
    (a : WalkAcc) :
    walkLevels old new nl u fuel (wsAcc A a) = wsAcc A (walkLevels old new nl u fuel a) := by
  induction fuel generalizing a with
  | zero => rfl
  | succ f ih =>
    rcases a with ⟨s, flag, tN, lN, nx⟩
    cases nx with
    | nil => rfl
    | cons c cs =>
      show walkLevels old new nl u f ((c :: cs).foldl (walkNode old new nl u)
          (wsAcc A ⟨s, flag, tN, lN, []⟩)) = _
      rw [foldl_walkNode_ws, ih]
      rfl

def walkFin (u : Bool) (a : WalkAcc) (oT nT : Nat) (oL nL : Option Nat) : St :=
  let s1 := a.s.bookMoveT a.tNodes oT nT
  match u, nL with
  | true, some nl => s1.bookMoveL a.lNodes oL nl
  | _, _ => s1

theorem walk_def (s : St) (start : Node) (oT nT : Nat) (oL nL : Option Nat) :
    s.walk start oT nT oL nL = walkFin (nL.isSome && s.linOn)
      (walkLevels oT nT nL (nL.isSome && s.linOn) (s.nodes.length + 1)
        ⟨s, true, [], [], [start]⟩) oT nT oL nL := rfl

theorem walkFin_ws (A : Seg) (u : Bool) (a : WalkAcc) (oT nT : Nat) (oL nL : Option Nat) :
    walkFin u (wsAcc A a) oT nT oL nL = (walkFin u a oT nT oL nL).withSeg A := by
  cases u <;> cases nL <;> cases oL <;> rfl

theorem walk_ws (A : Seg) (s : St) (start : Node) (oT nT : Nat) (oL nL : Option Nat) :
    (s.withSeg A).walk start oT nT oL nL = (s.walk start oT nT oL nL).withSeg A := by
  rw [walk_def, walk_def]
  show walkFin _ (walkLevels oT nT nL (nL.isSome && s.linOn) (s.nodes.length + 1)
        (wsAcc A ⟨s, true, [], [], [start]⟩)) oT nT oL nL = _
  rw [walkLevels_ws, walkFin_ws]
  rfl

theorem pUpdTid_ws (A : Seg) (st : St) (n : Node) (t : Nat) (l : Option Nat) :
    (st.withSeg A).pUpdTid n t l = liftP A (st.pUpdTid n t l) := by
  unfold St.pUpdTid
  show (match st.findNode n with | none => _ | some r => _) = _
  rcases st.findNode n with _ | r
  · rfl
  · simp only [walk_ws]; rfl

theorem BlindP.pUpdTid (n : Node) (t : St → Nat) (l : St → Option Nat)
    (ht : ∀ A st, t (st.withSeg A) = t st) (hl : ∀ A st, l (st.withSeg A) = l st) :
    BlindP (fun st => st.pUpdTid n (t st) (l st)) := by
  intro A st
  simp only [ht, hl, pUpdTid_ws]

theorem BlindP.pUpdTid_tidOf (m n : Node) (l : St → Option Nat)
    (hl : ∀ A st, l (st.withSeg A) = l st) :
    BlindP (fun st => match st.tidOf m with
      | some t => st.pUpdTid n t (l st)
      | none => .error .key) := by
  intro A st
  have h0 : (st.withSeg A).tidOf m = st.tidOf m := rfl
  simp only [h0]
  cases st.tidOf m with
  | none => rfl
  | some t => simp only [hl, pUpdTid_ws]

/-! ### 3. array-blind views and the nested `uDeleteEdge` -/

@[simp] theorem withSeg_outdeg (s : St) (A : Seg) (u : Node) : (s.withSeg A).outdeg u = s.outdeg u := rfl
@[simp] theorem withSeg_succs (s : St) (A : Seg) (u : Node) : (s.withSeg A).succs u = s.succs u := rfl
@[simp] theorem withSeg_preds (s : St) (A : Seg) (u : Node) : (s.withSeg A).preds u = s.preds u := rfl
@[simp] theorem withSeg_hasNode (s : St) (A : Seg) (u : Node) : (s.withSeg A).hasNode u = s.hasNode u := rfl
@[simp] theorem withSeg_hasEdge (s : St) (A : Seg) (e : Edge) : (s.withSeg A).hasEdge e = s.hasEdge e := rfl
@[simp] theorem withSeg_tidOf (s : St) (A : Seg) (u : Node) : (s.withSeg A).tidOf u = s.tidOf u := rfl
@[simp] theorem withSeg_timeOf (s : St) (A : Seg) (u : Node) : (s.withSeg A).timeOf u = s.timeOf u := rfl
@[simp] theorem withSeg_linOf (s : St) (A : Seg) (u : Node) : (s.withSeg A).linOf u = s.linOf u := rfl
@[simp] theorem withSeg_nextTid (s : St) (A : Seg) : (s.withSeg A).nextTid = s.nextTid := rfl
@[simp] theorem withSeg_nextLin (s : St) (A : Seg) : (s.withSeg A).nextLin = s.nextLin := rfl
@[simp] theorem withSeg_hasTrackAt (s : St) (A : Seg) (t u : Nat) :
    (s.withSeg A).hasTrackAt t u = s.hasTrackAt t u := rfl

def udeRest (e : Edge) (a : UOut) : UOut :=
  if a.1.outdeg e.1 == 0 then
    thenPrim a (fun st => st.pUpdTid e.2 st.nextTid (some st.nextLin))
  else if a.1.outdeg e.1 == 1 then
    match (a.1.succs e.1).head? with
    | none => (a.1, .error .other)
    | some sib =>
      let a1 := thenPrim a (fun st => match st.tidOf e.1 with
        | some t => st.pUpdTid sib t none
        | none => .error .key)
      thenPrim a1 (fun st => match st.tidOf e.2 with
        | some t => st.pUpdTid e.2 t (some st.nextLin)
        | none => .error .key)
  else (a.1, .error .invalid)

theorem uDeleteEdge_def (s : St) (e : Edge) :
    s.uDeleteEdge e = if !(s.hasEdge e) then (s, .error .invalid) else
      udeRest e (thenPrim (s, .ok []) (fun st => st.pDelEdge e)) := rfl

theorem udeRest_lift (A : Seg) (e : Edge) (a : UOut) :
    udeRest e (liftU A a) = liftU A (udeRest e a) := by
  unfold udeRest
  simp only [liftU_fst, withSeg_outdeg, withSeg_succs]
  by_cases h0 : (a.1.outdeg e.1 == 0) = true
  · simp only [h0, if_true]
    exact thenPrim_lift (BlindP.pUpdTid _ (fun st => st.nextTid) (fun st => some st.nextLin)
      (fun _ _ => rfl) (fun _ _ => rfl))
  · simp only [h0, Bool.false_eq_true, if_false]
    by_cases h1 : (a.1.outdeg e.1 == 1) = true
    · simp only [h1, if_true]
      cases (a.1.succs e.1).head? with
      | none => rfl
      | some sib =>
        simp only
        rw [thenPrim_lift (BlindP.pUpdTid_tidOf _ _ (fun _ => none) (fun _ _ => rfl)),
          thenPrim_lift (BlindP.pUpdTid_tidOf _ _ (fun st => some st.nextLin) (fun _ _ => rfl))]
    · simp only [h1, Bool.false_eq_true, if_false]; rfl

theorem BlindU.uDeleteEdge (e : Edge) : BlindU (fun st => st.uDeleteEdge e) := by
  intro A st
  show (st.withSeg A).uDeleteEdge e = liftU A (st.uDeleteEdge e)
  rw [uDeleteEdge_def, uDeleteEdge_def, withSeg_hasEdge]
  by_cases h : (!(st.hasEdge e)) = true
  · simp only [h, if_true]; rfl
  · simp only [h, Bool.false_eq_true, if_false]
    rw [← udeRest_lift, ← thenPrim_lift (acc := (st, .ok [])) (BlindP.pDelEdge e)]
    rfl

theorem insByTime_ws (A : Seg) (s : St) (x : Node) (l : List Node) :
    insByTime (s.withSeg A) x l = insByTime s x l := by
  induction l with
  | nil => rfl
  | cons y ys ih => simp only [insByTime, ih, withSeg_timeOf]

theorem sortByTime_ws (A : Seg) (s : St) (l : List Node) :
    sortByTime (s.withSeg A) l = sortByTime s l := by
  unfold sortByTime
  congr 1
  funext acc x
  exact insByTime_ws A s x acc

theorem scanNeighbors_ws (A : Seg) (s : St) (time : Nat) (l : List Node) (pred : Option Node) :
    scanNeighbors (s.withSeg A) time l pred = scanNeighbors s time l pred := by
  induction l generalizing pred with
  | nil => rfl
  | cons y ys ih => simp only [scanNeighbors, ih, withSeg_timeOf]

theorem trackNeighbors_ws (A : Seg) (s : St) (tid time : Nat) :
    (s.withSeg A).trackNeighbors tid time =
      ((s.trackNeighbors tid time).1.withSeg A, (s.trackNeighbors tid time).2) := by
  unfold St.trackNeighbors
  show (match alook tid s.t2n with | none => _ | some [] => _ | some cands => _) = _
  rcases h : alook tid s.t2n with _ | (_ | ⟨c, cs⟩)
  · rfl
  · rfl
  · simp only [sortByTime_ws, scanNeighbors_ws]; rfl

/-- the scan returns a predecessor strictly before `time` and a successor strictly after it -/
theorem scanNeighbors_times (s : St) (time : Nat) (l : List Node) (pred : Option Node)
    (hp : ∀ p, pred = some p → (s.timeOf p).getD 0 < time) :
    (∀ p, (scanNeighbors s time l pred).1 = some p → (s.timeOf p).getD 0 < time) ∧
    (∀ c, (scanNeighbors s time l pred).2 = some c → (s.timeOf c).getD 0 > time) := by
  induction l generalizing pred with
  | nil => exact ⟨hp, fun c h => by cases h⟩
  | cons y ys ih =>
    unfold scanNeighbors
    simp only
    by_cases h1 : (s.timeOf y).getD 0 < time
    · simp only [h1, if_true]
      exact ih (some y) (fun p hp' => by cases hp'; exact h1)
    · simp only [h1, if_false]
      by_cases h2 : (s.timeOf y).getD 0 > time
      · simp only [h2, if_true]
        exact ⟨hp, fun c hc => by cases hc; exact h2⟩
      · simp only [h2, if_false]
        exact ih pred hp

theorem trackNeighbors_times (s : St) (tid time : Nat) :
    (∀ p, (s.trackNeighbors tid time).2.1 = some p → (s.timeOf p).getD 0 < time) ∧
    (∀ c, (s.trackNeighbors tid time).2.2 = some c → (s.timeOf c).getD 0 > time) := by
  unfold St.trackNeighbors
  split
  · exact ⟨fun p h => (by cases h), fun c h => (by cases h)⟩
  · exact ⟨fun p h => (by cases h), fun c h => (by cases h)⟩
  · exact scanNeighbors_times s time _ none (fun p h => by cases h)

/-! ### 4. the array-reading primitives under a swap -/

theorem iouOf_swap {st : St} {A B : Seg} {t0 : Nat} {e : Edge} (hB : st.seg = some B)
    (hO : OffFrame t0 A B) (h1 : ∀ t, st.timeOf e.1 = some t → t ≠ t0)
    (h2 : ∀ t, st.timeOf e.2 = some t → t ≠ t0) : (st.withSeg A).iouOf e = st.iouOf e := by
  unfold St.iouOf
  simp only [withSeg_seg, hB, withSeg_timeOf]
  cases h1' : st.timeOf e.1 with
  | none => rfl
  | some t1 =>
    cases h2' : st.timeOf e.2 with
    | none => rfl
    | some t2 => simp only [hO.off t1 (h1 t1 h1'), hO.off t2 (h2 t2 h2')]

theorem pAddEdge_def (s : St) (e : Edge) (attrs : List (Key × Val)) :
    s.pAddEdge e attrs = if !(s.hasNode e.1) || !(s.hasNode e.2) then .error .value
      else .ok ((s.addEdgeRaw e attrs).iouUpdateEdge e, .addEdge e attrs) := rfl

theorem addEdgeRaw_ws (A : Seg) (s : St) (e : Edge) (attrs : List (Key × Val)) :
    (s.withSeg A).addEdgeRaw e attrs = (s.addEdgeRaw e attrs).withSeg A := by
  unfold St.addEdgeRaw
  rw [withSeg_hasEdge]
  split <;> rfl

theorem iouUpdateEdge_swap {s1 : St} {A B : Seg} {e : Edge} (hB : s1.seg = some B)
    (hi : (s1.withSeg A).iouOf e = s1.iouOf e) :
    (s1.withSeg A).iouUpdateEdge e = (s1.iouUpdateEdge e).withSeg A := by
  unfold St.iouUpdateEdge
  simp only [withSeg_iouKey, withSeg_iouActive, withSeg_seg, hB, hi, Option.isSome_some,
    Bool.and_true]
  cases s1.iouKey with
  | none => rfl
  | some k =>
    simp only
    cases s1.iouActive with
    | false => rfl
    | true => rfl

/-- `AddEdge` on the swapped state, when the IoU of the edge is the same in both arrays -/
theorem pAddEdge_swap {st : St} {A B : Seg} {e : Edge} {attrs : List (Key × Val)}
    (hB : st.seg = some B) (hi : (st.withSeg A).iouOf e = st.iouOf e) :
    (st.withSeg A).pAddEdge e attrs = liftP A (st.pAddEdge e attrs) := by
  rw [pAddEdge_def, pAddEdge_def]
  simp only [withSeg_hasNode]
  by_cases h : (!(st.hasNode e.1) || !(st.hasNode e.2)) = true
  · simp only [h, if_true]; rfl
  · simp only [h, Bool.false_eq_true, if_false]
    rw [addEdgeRaw_ws, iouUpdateEdge_swap (B := B) ((addEdgeRaw_seg ..).trans hB)]
    · rfl
    · rw [iouOf_congr_sg (s := st.withSeg A) (s' := (st.addEdgeRaw e attrs).withSeg A) rfl
          (addEdgeRaw_nodes ..),
        iouOf_congr_sg (s := st) (addEdgeRaw_seg ..) (addEdgeRaw_nodes ..)]
      exact hi

theorem trackOnDelete_ws (A : Seg) (s : St) (r : NodeRec) :
    (s.withSeg A).trackOnDelete r = (s.trackOnDelete r).withSeg A := by
  unfold St.trackOnDelete
  show (match s.linOn, r.lin with | true, some l => _ | _, _ => _) = _
  cases s.linOn <;> cases r.lin <;> rfl

/-- `DeleteNode` with explicit pixels writes them into whatever array is there -/
theorem pDelNode_ws (A : Seg) (st : St) (n : Node) (px : List Pix) :
    (st.withSeg A).pDelNode n (some px) = liftP (A.setPixels px 0) (st.pDelNode n (some px)) := by
  unfold St.pDelNode
  show (match st.findNode n with | none => _ | some r => _) = _
  cases st.findNode n with
  | none => rfl
  | some r =>
    simp only [withSeg_seg]
    cases st.seg with
    | none => simp only [liftP, ← trackOnDelete_ws]; rfl
    | some g => simp only [liftP, ← trackOnDelete_ws]; rfl

/-! ### 5. `uDeleteNode` under a swap of the array -/

/-- result of a composite whose last primitive replaces the array `A` by `A'` on acceptance -/
def finish (A A' : Seg) (o : UOut) : UOut :=
  match o.2 with
  | .ok _ => (o.1.withSeg A', o.2)
  | .error _ => (o.1.withSeg A, o.2)

theorem thenPrim_finish {A A' : Seg} {acc : UOut} {f : St → Except Err (St × PrimRec)}
    (hf : f (acc.1.withSeg A) = liftP A' (f acc.1)) :
    thenPrim (liftU A acc) f = finish A A' (thenPrim acc f) := by
  unfold St.thenPrim finish
  simp only [liftU_fst, liftU_snd, hf]
  rcases acc.2 with e | recs
  · rfl
  · simp only
    rcases f acc.1 with e | ⟨s', r⟩ <;> rfl

theorem udnA0_lift (A : Seg) (s : St) (n : Node) : udnA0 (s.withSeg A) n = liftU A (udnA0 s n) := by
  unfold St.udnA0
  rw [withSeg_preds]
  refine foldl_lift (A := A) _ ?_ (s.preds n) (s, .ok [])
  intro acc p
  simp only [liftU_fst, liftU_snd, withSeg_succs]
  rcases h2 : acc.2 with e | recs
  · simp only [liftU, h2]
  · simp only
    rw [← thenPrim_lift (BlindP.pDelEdge (p, n))]
    congr 1
    by_cases hl : ((acc.1.succs p).length == 2) = true
    · simp only [hl, if_true]
      cases ((acc.1.succs p).erase n).head? with
      | none => rfl
      | some sib =>
        exact thenPrim_lift (BlindP.pUpdTid_tidOf _ _ (fun _ => none) (fun _ _ => rfl))
    · simp only [hl, Bool.false_eq_true, if_false]

theorem udnA1_lift (A : Seg) (a0 : UOut) (n : Node) :
    udnA1 (liftU A a0) n = liftU A (udnA1 a0 n) := by
  unfold St.udnA1
  rw [liftU_fst, withSeg_succs]
  refine foldl_lift (A := A) _ ?_ _ a0
  intro acc c
  exact thenPrim_lift (BlindP.pDelEdge (n, c))

theorem udnA3_lift (A : Seg) (a2 : UOut) (o : List Node) (hp : Bool) :
    udnA3 (liftU A a2) o hp = liftU A (udnA3 a2 o hp) := by
  unfold St.udnA3
  refine foldl_lift (A := A) _ ?_ _ a2
  intro acc io
  by_cases h : (hp || decide (io.1 > 0)) = true
  · simp only [h, if_true]
    exact thenPrim_lift (BlindP.pUpdTid_tidOf _ _ (fun st => some st.nextLin) (fun _ _ => rfl))
  · simp only [h, Bool.false_eq_true, if_false]

/-- the re-linking `AddEdge (pred, succ)` joins two nodes outside frame `t0` -/
theorem udnA2_swap {st : St} {A B : Seg} {t0 : Nat} {r : Except Err (List PrimRec)}
    {pred succ : Option Node} {o : List Node} (hB : st.seg = some B) (hO : OffFrame t0 A B)
    (hp : ∀ p, pred = some p → (st.timeOf p).getD 0 < t0)
    (hs : ∀ c, succ = some c → (st.timeOf c).getD 0 > t0) :
    udnA2 (liftU A (st, r)) pred succ o =
      (liftU A (udnA2 (st, r) pred succ o).1, (udnA2 (st, r) pred succ o).2) := by
  unfold St.udnA2
  rcases pred with _ | p
  · rfl
  · rcases succ with _ | sc
    · rfl
    · simp only
      rw [thenPrim_lift_at]
      refine pAddEdge_swap hB (iouOf_swap hB hO ?_ ?_)
      · intro t ht h0
        have := hp p rfl
        simp only [ht, Option.getD_some, h0] at this
        exact Nat.lt_irrefl _ this
      · intro t ht h0
        have := hs sc rfl
        simp only [ht, Option.getD_some, h0] at this
        exact Nat.lt_irrefl _ this

theorem udnTail_swap {a1 : UOut} {A B : Seg} {n : Node} {px : List Pix} {hp : Bool}
    {o : List Node} {t0 : Nat} (hB : a1.1.seg = some B) (ht : a1.1.timeOf n = some t0)
    (hO : OffFrame t0 A B) :
    udnTail (liftU A a1) n (some px) hp o = finish A (A.setPixels px 0) (udnTail a1 n (some px) hp o) := by
  unfold St.udnTail
  simp only [liftU_fst, liftU_snd, withSeg_tidOf, withSeg_timeOf, ht]
  rcases h2 : a1.2 with e | recs
  · rfl
  · rcases h3 : a1.1.tidOf n with _ | tid
    · rfl
    · simp only
      rw [trackNeighbors_ws]
      have hfr := (Fr.trackNeighbors a1.1 tid t0).toFs
      have htm := trackNeighbors_times a1.1 tid t0
      generalize a1.1.trackNeighbors tid t0 = tn at hfr htm
      simp only
      have h2' := udnA2_swap (A := A) (r := Except.ok recs) (pred := tn.2.1) (succ := tn.2.2)
        (o := o) (hB.symm ▸ hfr.seg) hO
        (fun p hp' => by rw [hfr.timeOf]; exact htm.1 p hp')
        (fun c hc => by rw [hfr.timeOf]; exact htm.2 c hc)
      rw [show ((tn.1.withSeg A, Except.ok recs) : UOut) = liftU A (tn.1, Except.ok recs) from rfl,
        h2']
      simp only
      rw [udnA3_lift]
      exact thenPrim_finish (pDelNode_ws A _ n px)

/-- **`uDeleteNode` commutes with swapping the array** (two-sided form: both outcomes) -/
theorem uDeleteNode_swap_eq {s : St} {A B : Seg} {n : Node} {px : List Pix} {t0 : Nat}
    (hB : s.seg = some B) (ht : s.timeOf n = some t0) (hO : OffFrame t0 A B) :
    (s.withSeg A).uDeleteNode n (some px) =
      finish A (A.setPixels px 0) (s.uDeleteNode n (some px)) := by
  rw [uDeleteNode_eq_sg, uDeleteNode_eq_sg]
  simp only [withSeg_hasNode, withSeg_preds, udnA0_lift, liftU_fst, liftU_snd, withSeg_succs]
  by_cases hn : (!(s.hasNode n)) = true
  · simp only [hn, if_true]; rfl
  · simp only [hn, Bool.false_eq_true, if_false]
    have hf0 := Fs.udnA0 s n
    rcases h0 : (udnA0 s n).2 with e | recs0
    · rfl
    · simp only
      rw [udnA1_lift]
      have hf1 := hf0.trans (Fs.udnA1 (udnA0 s n) n)
      exact udnTail_swap (hf1.seg.trans hB) ((hf1.timeOf n).trans ht) hO

theorem uDeleteNode_swap {s : St} {A B : Seg} {n : Node} {px : List Pix} {t0 : Nat} {recs : List PrimRec}
    (hB : s.seg = some B) (ht : s.timeOf n = some t0) (hO : OffFrame t0 A B)
    (hok : ((s.withSeg A).uDeleteNode n (some px)).2 = .ok recs) :
    (s.uDeleteNode n (some px)).2 = .ok recs ∧
    ((s.withSeg A).uDeleteNode n (some px)).1 = (s.uDeleteNode n (some px)).1.withSeg (A.setPixels px 0) := by
  rw [uDeleteNode_swap_eq hB ht hO] at hok ⊢
  unfold finish at hok ⊢
  rcases h : (s.uDeleteNode n (some px)).2 with e | r
  · rw [h] at hok; cases hok
  · rw [h] at hok
    simp only at hok ⊢
    exact ⟨hok, trivial⟩

theorem uDeleteNode_swap_err {s : St} {A B : Seg} {n : Node} {px : List Pix} {t0 : Nat} {e : Err}
    (hB : s.seg = some B) (ht : s.timeOf n = some t0) (hO : OffFrame t0 A B)
    (herr : ((s.withSeg A).uDeleteNode n (some px)).2 = .error e) :
    (s.uDeleteNode n (some px)).2 = .error e ∧
    ((s.withSeg A).uDeleteNode n (some px)).1 = (s.uDeleteNode n (some px)).1.withSeg A := by
  rw [uDeleteNode_swap_eq hB ht hO] at herr ⊢
  unfold finish at herr ⊢
  rcases h : (s.uDeleteNode n (some px)).2 with e' | r
  · rw [h] at herr
    simp only at herr ⊢
    exact ⟨herr, trivial⟩
  · rw [h] at herr; cases herr

/-! ### 6. `uAddNode` under a swap of the array -/

theorem uanSucc_lift (A : Seg) (sN : St) (succ : Option Node) (force : Bool) :
    uanSucc (sN.withSeg A) succ force = liftU A (uanSucc sN succ force) := by
  unfold St.uanSucc
  rcases succ with _ | sc
  · rfl
  · simp only [withSeg_preds, withSeg_outdeg]
    rcases (sN.preds sc).head? with _ | pos
    · rfl
    · simp only
      by_cases h2 : (sN.outdeg pos == 2) = true
      · simp only [h2, if_true]
        cases force with
        | false => rfl
        | true =>
          simp only [Bool.not_true, Bool.false_eq_true, if_false]
          exact thenUser_lift (acc := (sN, .ok [])) (BlindU.uDeleteEdge (pos, sc))
      · simp only [h2, Bool.false_eq_true, if_false]; rfl

theorem uanDiv_lift (A : Seg) (sN : St) (pred succ : Option Node) (force : Bool) :
    uanDiv (sN.withSeg A) pred succ force = liftU A (uanDiv sN pred succ force) := by
  unfold St.uanDiv
  rcases pred with _ | p
  · exact uanSucc_lift A sN succ force
  · simp only [withSeg_outdeg, withSeg_succs]
    by_cases h2 : (sN.outdeg p == 2) = true
    · simp only [h2, if_true]
      cases force with
      | false => rfl
      | true =>
        simp only [Bool.not_true, Bool.false_eq_true, if_false]
        rcases sN.succs p with _ | ⟨c1, _ | ⟨c2, _ | ⟨c3, cs⟩⟩⟩
        · rfl
        · rfl
        · simp only
          rw [← thenUser_lift (BlindU.uDeleteEdge (p, c2)),
            ← thenUser_lift (acc := (sN, .ok [])) (BlindU.uDeleteEdge (p, c1))]
          rfl
        · rfl
    · simp only [h2, Bool.false_eq_true, if_false]
      exact uanSucc_lift A sN succ force

theorem uanLin_ws (A : Seg) (a : AddNodeArgs) (s0 : St) (pred succ : Option Node) :
    uanLin a (s0.withSeg A) pred succ = uanLin a s0 pred succ := by
  unfold St.uanLin
  cases a.lin <;> cases pred <;> cases succ <;> rfl

theorem uanA1_lift (A : Seg) (a0 : UOut) (pred succ : Option Node) :
    R2G.uanA1 (liftU A a0) pred succ = liftU A (R2G.uanA1 a0 pred succ) := by
  unfold R2G.uanA1
  rcases pred with _ | p
  · rfl
  · rcases succ with _ | sc
    · rfl
    · exact thenPrim_lift (BlindP.pDelEdge (p, sc))

/-- painting the new label gives the same array from `A` and from `B`: the two `AddNode`s agree -/
theorem pAddNode_swap {st : St} {A B : Seg} {r : NodeRec} {px : List Pix} (hB : st.seg = some B)
    (hAB : A.setPixels px r.id = B.setPixels px r.id) :
    (st.withSeg A).pAddNode r (some px) = st.pAddNode r (some px) := by
  unfold St.pAddNode
  simp only [withSeg_seg, hB, hAB]
  rfl

/-- `AddNode` with pixels on a state with an array is never refused -/
theorem pAddNode_isOk {st : St} {B : Seg} (r : NodeRec) (px : List Pix) (hB : st.seg = some B) :
    ∃ s2 rec, st.pAddNode r (some px) = .ok (s2, rec) := by
  unfold St.pAddNode
  simp only [hB, Option.isNone_some, Bool.false_and, Bool.false_eq_true, if_false,
    Option.isSome_some, Option.isNone_some, Bool.and_false]
  exact ⟨_, _, rfl⟩

theorem uanRest_swap {a : AddNodeArgs} {time tid : Nat} {pred succ : Option Node} {a0 : UOut}
    {A B : Seg} {px : List Pix} (hB : a0.1.seg = some B) (hpx : a.pixels = some px)
    (hAB : A.setPixels px a.node = B.setPixels px a.node) :
    uanRest a time tid pred succ (liftU A a0) = uanRest a time tid pred succ a0 ∨
    ∃ e, (uanRest a time tid pred succ a0).2 = .error e ∧
      uanRest a time tid pred succ (liftU A a0) = liftU A (uanRest a time tid pred succ a0) := by
  rw [R2G.uanRest_eq, R2G.uanRest_eq]
  simp only [liftU_snd, liftU_fst, uanA1_lift, uanLin_ws, hpx]
  rcases h0 : a0.2 with e | r0
  · exact Or.inr ⟨e, rfl, rfl⟩
  · simp only
    have hf1 := (R2G.Fc.uanA1 a0 pred succ).seg.trans hB
    generalize R2G.uanA1 a0 pred succ = a1 at hf1
    rcases h1 : a1.2 with e | recs1
    · exact Or.inr ⟨e, rfl, rfl⟩
    · simp only
      rw [pAddNode_swap hf1 hAB]
      obtain ⟨s2, r, h⟩ := pAddNode_isOk ⟨a.node, time, tid, uanLin a a0.1 pred succ, a.other⟩ px hf1
      rw [h]
      exact Or.inl rfl

/-- **`uAddNode` under a swap**: either the two runs are literally identical (refused or accepted
    from the `AddNode` primitive on), or both are refused before it with the same error and
    states that differ in the array only -/
theorem uAddNode_swap_cases {s : St} {A B : Seg} {a : AddNodeArgs} {px : List Pix}
    (hB : s.seg = some B) (hpx : a.pixels = some px)
    (hAB : A.setPixels px a.node = B.setPixels px a.node) :
    (s.withSeg A).uAddNode a = s.uAddNode a ∨
    ∃ e, (s.uAddNode a).2 = .error e ∧ (s.withSeg A).uAddNode a = liftU A (s.uAddNode a) := by
  rw [uAddNode_eq_sg, uAddNode_eq_sg]
  rcases ht : a.time with _ | time
  · exact Or.inr ⟨_, rfl, rfl⟩
  · rcases hd : a.tid with _ | tid0
    · exact Or.inr ⟨_, rfl, rfl⟩
    · simp only [withSeg_hasNode, withSeg_hasTrackAt, withSeg_nextTid, trackNeighbors_ws, uanDiv_lift]
      by_cases hn : s.hasNode a.node = true
      · simp only [hn, if_true]
        exact Or.inr ⟨_, rfl, rfl⟩
      · simp only [hn, Bool.false_eq_true, if_false]
        refine uanRest_swap ?_ hpx hAB
        exact (((Fr.trackNeighbors s _ _).toFs.trans (Fs.uanDiv _ _ _ _)).seg).trans hB

theorem uAddNode_swap {s : St} {A B : Seg} {a : AddNodeArgs} {px : List Pix} {recs : List PrimRec}
    (hB : s.seg = some B) (hpx : a.pixels = some px)
    (hAB : A.setPixels px a.node = B.setPixels px a.node)
    (hok : ((s.withSeg A).uAddNode a).2 = .ok recs) :
    s.uAddNode a = (s.withSeg A).uAddNode a := by
  rcases uAddNode_swap_cases (A := A) hB hpx hAB with h | ⟨e, he, h⟩
  · exact h.symm
  · rw [h, liftU_snd, he] at hok; cases hok

theorem uAddNode_swap_err {s : St} {A B : Seg} {a : AddNodeArgs} {px : List Pix} {e : Err}
    (hB : s.seg = some B) (hpx : a.pixels = some px)
    (hAB : A.setPixels px a.node = B.setPixels px a.node)
    (herr : ((s.withSeg A).uAddNode a).2 = .error e) :
    (s.uAddNode a).2 = .error e ∧
    (((s.withSeg A).uAddNode a).1 = (s.uAddNode a).1.withSeg A ∨
     ((s.withSeg A).uAddNode a).1 = (s.uAddNode a).1) := by
  rcases uAddNode_swap_cases (A := A) hB hpx hAB with h | ⟨e', _, h⟩
  · rw [h] at herr ⊢
    exact ⟨herr, Or.inr rfl⟩
  · rw [h] at herr ⊢
    exact ⟨herr, Or.inl rfl⟩

/-! ### 7. rollback of graph-only records under a swap of the array -/

/-- records whose inverse is an edge primitive or a relabel walk -/
def GraphOnly : PrimRec → Prop
  | .delEdge .. => True
  | .addEdge .. => True
  | .updTid .. => True
  | _ => False

def invStep (acc : UOut) (p : PrimRec) : UOut :=
  match acc.2 with
  | .error e => (acc.1, .error e)
  | .ok done =>
    match acc.1.invPrim p with
    | .ok (s', r) => (s', .ok (done ++ [r]))
    | .error e => (acc.1, .error e)

theorem invGroup_def (s : St) (recs : List PrimRec) :
    s.invGroup recs = recs.reverse.foldl invStep (s, .ok []) := rfl

theorem invStep_lift {A : Seg} {acc : UOut} {p : PrimRec}
    (hp : (acc.1.withSeg A).invPrim p = liftP A (acc.1.invPrim p)) :
    invStep (liftU A acc) p = liftU A (invStep acc p) := by
  unfold invStep
  simp only [liftU_fst, liftU_snd, hp]
  rcases acc.2 with e | done
  · rfl
  · simp only
    rcases acc.1.invPrim p with e | ⟨s', r⟩ <;> rfl

/-- the inverse of a graph-only record keeps the array and the (id, time) skeleton -/
theorem Fs.invPrim_graphOnly {st st' : St} {p r : PrimRec} (hg : GraphOnly p)
    (h : st.invPrim p = .ok (st', r)) : Fs st st' := by
  cases p with
  | delEdge e saved => exact FsPrim.pAddEdge e saved st st' r h
  | addEdge e at_ => exact FsPrim.pDelEdge (fun _ => e) st st' r h
  | updTid start oT nT oL nL => exact FsPrim.pUpdTid start (fun _ => oT) (fun _ => oL) st st' r h
  | addNode _ _ => exact hg.elim
  | delNode _ _ => exact hg.elim
  | updSeg _ _ _ => exact hg.elim
  | updAttrs _ _ _ => exact hg.elim

theorem Fs.invStep_graphOnly {acc : UOut} {p : PrimRec} (hg : GraphOnly p) :
    Fs acc.1 (invStep acc p).1 := by
  unfold invStep
  rcases acc.2 with e | done
  · exact Fs.refl _
  · simp only
    rcases h : acc.1.invPrim p with e | ⟨s', r⟩
    · exact Fs.refl _
    · exact Fs.invPrim_graphOnly hg h

theorem invPrim_swap_graphOnly {st : St} {A B : Seg} {t0 : Nat} {p : PrimRec}
    (hB : st.seg = some B) (hO : OffFrame t0 A B) (hg : GraphOnly p)
    (ht : ∀ e attrs, p = .delEdge e attrs →
      ∀ t, (st.timeOf e.1 = some t ∨ st.timeOf e.2 = some t) → t ≠ t0) :
    (st.withSeg A).invPrim p = liftP A (st.invPrim p) := by
  cases p with
  | delEdge e saved =>
    exact pAddEdge_swap hB (iouOf_swap hB hO (fun t h => ht e saved rfl t (Or.inl h))
      (fun t h => ht e saved rfl t (Or.inr h)))
  | addEdge e at_ => exact BlindP.pDelEdge e A st
  | updTid start oT nT oL nL => exact pUpdTid_ws A st start oT oL
  | addNode _ _ => exact hg.elim
  | delNode _ _ => exact hg.elim
  | updSeg _ _ _ => exact hg.elim
  | updAttrs _ _ _ => exact hg.elim

theorem foldl_invStep_swap {s : St} {A B : Seg} {t0 : Nat} (hB : s.seg = some B)
    (hO : OffFrame t0 A B) (l : List PrimRec) (hg : ∀ r ∈ l, GraphOnly r)
    (ht : ∀ r ∈ l, ∀ e attrs, r = .delEdge e attrs →
      ∀ t, (s.timeOf e.1 = some t ∨ s.timeOf e.2 = some t) → t ≠ t0)
    (acc : UOut) (hf : Fs s acc.1) :
    l.foldl invStep (liftU A acc) = liftU A (l.foldl invStep acc) := by
  induction l generalizing acc with
  | nil => rfl
  | cons p l ih =>
    rw [foldl_cons, foldl_cons]
    have hgp := hg p (mem_cons_self ..)
    rw [invStep_lift (invPrim_swap_graphOnly (hf.seg.trans hB) hO hgp ?_)]
    · exact ih (fun r hr => hg r (mem_cons_of_mem _ hr)) (fun r hr => ht r (mem_cons_of_mem _ hr))
        _ (hf.trans (Fs.invStep_graphOnly hgp))
    · intro e attrs he t htm
      rw [hf.timeOf, hf.timeOf] at htm
      exact ht p (mem_cons_self ..) e attrs he t htm

/-- **rollback simulation**: inverting graph-only records commutes with swapping the array, when
    no re-added edge (`delEdge` record) has an end point in frame `t0` -/
theorem invGroup_swap_graphOnly {s : St} {A B : Seg} {t0 : Nat} {recs : List PrimRec}
    (hB : s.seg = some B) (hO : OffFrame t0 A B) (hg : ∀ r ∈ recs, GraphOnly r)
    (ht : ∀ r ∈ recs, ∀ e attrs, r = .delEdge e attrs → ∀ t, (s.timeOf e.1 = some t ∨ s.timeOf e.2 = some t) → t ≠ t0) :
    (s.withSeg A).invGroup recs = (((s.invGroup recs).1).withSeg A, (s.invGroup recs).2) := by
  rw [invGroup_def, invGroup_def]
  exact foldl_invStep_swap hB hO recs.reverse (fun r hr => hg r (mem_reverse.mp hr))
    (fun r hr => ht r (mem_reverse.mp hr)) (s, .ok []) (Fs.refl s)

theorem rollback_swap_graphOnly {s : St} {A B : Seg} {t0 : Nat} {recs : List PrimRec}
    (hB : s.seg = some B) (hO : OffFrame t0 A B) (hg : ∀ r ∈ recs, GraphOnly r)
    (ht : ∀ r ∈ recs, ∀ e attrs, r = .delEdge e attrs → ∀ t, (s.timeOf e.1 = some t ∨ s.timeOf e.2 = some t) → t ≠ t0) :
    (s.withSeg A).rollback recs = (s.rollback recs).withSeg A := by
  unfold St.rollback
  rw [invGroup_swap_graphOnly hB hO hg ht]

end Ft.R3D
