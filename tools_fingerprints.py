#!/venv/bin/python
"""Records the AST fingerprint (formatting/comments ignored) of every source file a property is
anchored in (properties.jsonl: anchors.files) -> harness/source_fingerprints.json (committed).
`check` recomputes them on every run: a changed anchor file is not a violation, but it means the
hand-written model may be stale there, so the check searches with a tripled budget and says so in
the evidence."""
import ast, hashlib, json, sys
from pathlib import Path
V = Path(__file__).resolve().parent
def fingerprint(path: Path) -> str:
    try:
        return hashlib.sha1(ast.dump(ast.parse(path.read_text())).encode()).hexdigest()[:16]
    except Exception as e:
        return f"unreadable:{type(e).__name__}"
def anchors() -> dict:
    out = {}
    for l in (V / "properties.jsonl").read_text().splitlines():
        if l.strip():
            p = json.loads(l)
            out[p["id"]] = sorted(set(p["anchors"]["files"]))
    return out
def current(repo="/repo") -> dict:
    files = sorted({f for fs in anchors().values() for f in fs})
    return {f: fingerprint(Path(repo) / f) for f in files}
if __name__ == "__main__":
    fp = current()
    (V / "harness" / "source_fingerprints.json").write_text(json.dumps(fp, indent=1))
    print(f"recorded {len(fp)} anchor files")
