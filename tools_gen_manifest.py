#!/venv/bin/python
"""Regenerates MANIFEST.json from harness/props.py (single source of truth)."""
import json, sys
from pathlib import Path
V = Path(__file__).resolve().parent
sys.path.insert(0, str(V))
from harness import props as P

props = [json.loads(l) for l in (V / "properties.jsonl").read_text().splitlines() if l.strip()]
ids = [p["id"] for p in props]
baseline = json.loads(Path("/root/.vp/BASELINE.json").read_text())["cmd"] if Path("/root/.vp/BASELINE.json").exists() else "cd /repo && /venv/bin/python -m pytest -ra -q -p no:cacheprovider --timeout=900 --continue-on-collection-errors --junitxml=<file>"
checks = []
for pid in ids:
    if pid not in P.FAMILY:
        continue
    checks.append({
        "property_id": pid,
        "quick_cmd": f"./check {pid} --tier quick",
        "thorough_cmd": f"./check {pid} --tier thorough",
        "evidence_file": f"/verif/evidence/{pid}.json",
        "replay_cmd_template": f"./check {pid} --replay {{path}}",
        "engine": P.ENGINE.get(pid, "lean-model+" + P.FAMILY[pid]),
        "level_claimed": {
            "category": "proof",
            "text": P.LEVEL_TEXT.get(pid, ""),
            "design_ref": f"DESIGN.md §4 {pid}",
        },
        "level_note": P.LEVEL_NOTE.get(pid, ""),
        "technique": P.TECHNIQUE.get(pid, "Lean 4 theorems about a hand-written executable model + differential correspondence check against the real code + independent oracle"),
    })
na = [{"property_id": pid, "reason": P.NOT_APPLICABLE.get(pid, "check not built yet in this round (work in progress); no technique switch intended")}
      for pid in ids if pid not in P.FAMILY]
m = {
    "version": 1,
    "setup_cmd": "cd /verif/lean && lake build ftdriver ftvalid FtProofs",
    "hooks": {
        "guard": "FUNTRACKS_VERIF",
        "enable": "no source hooks are needed: the harness observes the real code in-process (signal callbacks, monkeypatched difflib inside the harness process only); FUNTRACKS_VERIF=1 is set by ./check but read by nothing in /repo",
        "baseline_off_cmd": baseline,
        "source_commits": [],
        "add_only": True,
    },
    "engines": P.ENGINES,
    "checks": checks,
    "notes": P.NOTES,
    "not_applicable": na,
}
(V / "MANIFEST.json").write_text(json.dumps(m, indent=1))
print(f"MANIFEST.json: {len(checks)} checks, {len(na)} not_applicable")
