#!/venv/bin/python
"""Systematic mutation analysis of the checks (a measurement, not a check).

For every source file a property is anchored in (properties.jsonl: anchors.files) enumerate small
AST mutations (comparison operators, boolean operators, `is None` tests, negated conditions,
integer constants +-1, removed call statements, swapped +/-), sample `--n` of them with a fixed
seed, and for each mutant
  1. write the mutated file into a private copy of /repo/src (nothing in /repo is touched),
  2. run the quick checks of the properties anchored in that file (PYTHONPATH = the copy) until one
     reports a violation  ->  "killed by Cxx";
  3. a mutant that survives all of them is run against the repository's own test suite:
     killed there  -> the suite sees what the checks do not (still worth a look);
     survives too  -> equivalent, or outside every property, or a GAP: listed for manual triage.
Results: mutation/RESULTS.md, mutation/results.json.

usage: ./tools_mutate.py [--n 200] [--seed 1] [--jobs 3] [--files f1 f2 …]
"""
from __future__ import annotations

import argparse
import ast
import copy
import json
import os
import random
import shutil
import subprocess
import sys
import time
from concurrent.futures import ThreadPoolExecutor
from pathlib import Path

V = Path(__file__).resolve().parent
REPO = Path("/repo")
WORK = Path("/tmp/ft_mutants")


def anchors() -> dict[str, list[str]]:
    out: dict[str, list[str]] = {}
    for l in (V / "properties.jsonl").read_text().splitlines():
        if l.strip():
            p = json.loads(l)
            for f in p["anchors"]["files"]:
                out.setdefault(f, []).append(p["id"])
    return out


CMP = {ast.Lt: ast.LtE, ast.LtE: ast.Lt, ast.Gt: ast.GtE, ast.GtE: ast.Gt, ast.Eq: ast.NotEq, ast.NotEq: ast.Eq,
       ast.Is: ast.IsNot, ast.IsNot: ast.Is, ast.In: ast.NotIn, ast.NotIn: ast.In}


class Collector(ast.NodeVisitor):
    """enumerates mutation points as (kind, node index in ast.walk order, detail)"""

    def __init__(self):
        self.points: list[tuple[str, int, str]] = []


def mutation_points(tree: ast.AST) -> list[tuple[str, int, str]]:
    pts = []
    for i, n in enumerate(ast.walk(tree)):
        if isinstance(n, ast.Compare) and len(n.ops) == 1 and type(n.ops[0]) in CMP:
            pts.append(("cmp", i, type(n.ops[0]).__name__))
            if isinstance(n.ops[0], (ast.IsNot, ast.Is)) and isinstance(n.comparators[0], ast.Constant) \
                    and n.comparators[0].value is None:
                pts.append(("none-to-truthy", i, ""))
        elif isinstance(n, ast.BoolOp):
            pts.append(("boolop", i, type(n.op).__name__))
        elif isinstance(n, (ast.If, ast.While)) and not isinstance(n.test, ast.Constant):
            pts.append(("negate-if", i, ""))
        elif isinstance(n, ast.Constant) and isinstance(n.value, int) and not isinstance(n.value, bool) \
                and -3 <= n.value <= 3:
            pts.append(("const+1", i, str(n.value)))
            pts.append(("const-1", i, str(n.value)))
        elif isinstance(n, ast.BinOp) and isinstance(n.op, (ast.Add, ast.Sub)):
            pts.append(("addsub", i, type(n.op).__name__))
        elif isinstance(n, ast.Expr) and isinstance(n.value, ast.Call):
            # drop a call statement (not docstrings / super().__init__ / warnings)
            src = ast.unparse(n.value)
            if not src.startswith(("super(", "warnings.warn", "warn(")):
                pts.append(("drop-call", i, src[:60]))
        elif isinstance(n, ast.Return) and isinstance(n.value, ast.Constant) and isinstance(n.value.value, bool):
            pts.append(("flip-return", i, str(n.value.value)))
    return pts


def apply_mutation(src: str, point: tuple[str, int, str]) -> str | None:
    kind, idx, _ = point
    tree = ast.parse(src)
    nodes = list(ast.walk(tree))
    n = nodes[idx]
    if kind == "cmp":
        n.ops[0] = CMP[type(n.ops[0])]()
    elif kind == "none-to-truthy":
        # `x is not None` -> `x` ; `x is None` -> `not x`
        new = n.left if isinstance(n.ops[0], ast.IsNot) else ast.UnaryOp(op=ast.Not(), operand=n.left)
        for parent in nodes:
            for field, val in ast.iter_fields(parent):
                if val is n:
                    setattr(parent, field, new)
                elif isinstance(val, list) and n in val:
                    val[val.index(n)] = new
    elif kind == "boolop":
        n.op = ast.Or() if isinstance(n.op, ast.And) else ast.And()
    elif kind == "negate-if":
        n.test = ast.UnaryOp(op=ast.Not(), operand=n.test)
    elif kind == "const+1":
        n.value = n.value + 1
    elif kind == "const-1":
        n.value = n.value - 1
    elif kind == "addsub":
        n.op = ast.Sub() if isinstance(n.op, ast.Add) else ast.Add()
    elif kind == "drop-call":
        n.value = ast.Constant(value=None)
    elif kind == "flip-return":
        n.value.value = not n.value.value
    else:
        return None
    ast.fix_missing_locations(tree)
    try:
        return ast.unparse(tree)
    except Exception:
        return None


def line_of(src: str, point) -> int:
    nodes = list(ast.walk(ast.parse(src)))
    return getattr(nodes[point[1]], "lineno", 0)


def run_mutant(k: int, rel: str, point, props: list[str], with_suite: bool) -> dict:
    d = WORK / f"m{k}"
    shutil.rmtree(d, ignore_errors=True)
    (d).mkdir(parents=True)
    shutil.copytree(REPO / "src", d / "src")
    f = d / rel
    src = (REPO / rel).read_text()
    mutated = apply_mutation(src, point)
    row = {"file": rel, "kind": point[0], "detail": point[2], "line": line_of(src, point), "props": props}
    if mutated is None or ast.dump(ast.parse(mutated)) == ast.dump(ast.parse(src)):
        row["status"] = "not-a-mutant"
        shutil.rmtree(d, ignore_errors=True)
        return row
    f.write_text(mutated)
    env = dict(os.environ, PYTHONPATH=str(d / "src"), PYTHONWARNINGS="ignore")
    # does it import at all?
    imp = subprocess.run(["/venv/bin/python", "-c", "import funtracks.data_model, funtracks.import_export, funtracks.candidate_graph, funtracks.user_actions"],
                         env=env, capture_output=True, text=True)
    if imp.returncode != 0:
        row["status"] = "does-not-import"
        shutil.rmtree(d, ignore_errors=True)
        return row
    killed = None
    t0 = time.time()
    for p in props:
        r = subprocess.run([str(V / "check"), p, "--tier", "quick"], cwd=V, env=env, capture_output=True, text=True)
        if r.returncode == 1 or "VIOLATION" in r.stdout:
            killed = p
            row["how"] = next((l for l in r.stdout.splitlines() if l.startswith("VIOLATION")), "")[:160]
            break
        if r.returncode == 2:
            row.setdefault("rc2", []).append(p)
    row["check_s"] = round(time.time() - t0, 1)
    if killed:
        row["status"] = "killed"
        row["by"] = killed
    else:
        row["status"] = "survived-checks"
        if with_suite:
            t = subprocess.run(["/venv/bin/python", "-m", "pytest", "-q", "-x", "-p", "no:cacheprovider", "tests"],
                               cwd=REPO, env=env, capture_output=True, text=True)
            tail = t.stdout.strip().splitlines()[-1] if t.stdout.strip() else ""
            row["suite"] = tail[:120]
            row["status"] = "survived-checks-killed-by-suite" if ("failed" in tail or "error" in tail) else "SURVIVED-ALL"
    shutil.rmtree(d, ignore_errors=True)
    return row


def main() -> int:
    ap = argparse.ArgumentParser()
    ap.add_argument("--n", type=int, default=120)
    ap.add_argument("--seed", type=int, default=1)
    ap.add_argument("--jobs", type=int, default=3)
    ap.add_argument("--files", nargs="*")
    ap.add_argument("--no-suite", action="store_true")
    ap.add_argument("--retest", help="results_seed<N>.json of an earlier run: re-run only its survivors")
    ap.add_argument("--tag", default="")
    args = ap.parse_args()
    anc = anchors()
    files = sorted(anc) if not args.files else args.files
    rng = random.Random(args.seed)
    pool = []
    for rel in files:
        p = REPO / rel
        if not p.exists():
            continue
        for pt in mutation_points(ast.parse(p.read_text())):
            pool.append((rel, pt))
    rng.shuffle(pool)
    chosen = pool[:args.n]
    if args.retest:
        # re-run the mutants that an earlier run (older harness) did not kill
        want = {(r["file"], r["kind"], r["detail"], r["line"]) for r in json.loads(Path(args.retest).read_text())
                if r.get("status", "").startswith(("survived", "SURVIVED", "tool-error")) and "file" in r}
        srcs = {rel: (REPO / rel).read_text() for rel in {w[0] for w in want}}
        chosen = [(rel, pt) for rel, pt in pool if rel in srcs and (rel, pt[0], pt[2], line_of(srcs[rel], pt)) in want]
    print(f"{len(pool)} mutation points in {len(files)} anchor files; running {len(chosen)}")
    WORK.mkdir(exist_ok=True)
    out_dir = V / "mutation"
    out_dir.mkdir(exist_ok=True)
    rows: list[dict] = []
    with ThreadPoolExecutor(max_workers=args.jobs) as ex:
        futs = [ex.submit(run_mutant, k, rel, pt, anc.get(rel, []), not args.no_suite) for k, (rel, pt) in enumerate(chosen)]
        for fu in futs:
            try:
                row = fu.result()
            except Exception as e:  # noqa: BLE001
                row = {"status": "tool-error", "error": str(e)[:200]}
            rows.append(row)
            print(json.dumps(row)[:300], flush=True)
    (out_dir / f"results_seed{args.seed}{args.tag}.json").write_text(json.dumps(rows, indent=1))
    tally: dict[str, int] = {}
    for r in rows:
        tally[r["status"]] = tally.get(r["status"], 0) + 1
    lines = [f"# Mutation analysis (seed {args.seed}, {len(rows)} sampled of {len(pool)} mutation points)", "",
             "| status | count |", "|---|---|"] + [f"| {k} | {v} |" for k, v in sorted(tally.items())] + ["",
             "## Mutants that survived the checks", "", "| file:line | mutation | properties checked | suite |", "|---|---|---|---|"]
    for r in rows:
        if r["status"].startswith(("survived", "SURVIVED")):
            lines.append(f"| {r['file']}:{r['line']} | {r['kind']} {r['detail']} | {','.join(r['props'])} | {r.get('suite', '')} |")
    (out_dir / f"RESULTS_seed{args.seed}{args.tag}.md").write_text("\n".join(lines) + "\n")
    print(tally)
    shutil.rmtree(WORK, ignore_errors=True)
    return 0


if __name__ == "__main__":
    sys.exit(main())
