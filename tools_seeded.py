#!/venv/bin/python
"""Run the registered checks against every seeded change under /verif/seeded/<id>/.

For each seeded change: `git -C /repo apply patch.diff`, run the quick check of the property it
targets (and optionally all others with --all), record exit code + VIOLATION lines, then
`git -C /repo checkout -- .`.  Results are written to seeded/RESULTS.md (a table) and
seeded/results.json.  /repo is left clean.

usage: ./tools_seeded.py [--only ID ...] [--all] [--tier quick|thorough]
"""
from __future__ import annotations

import argparse
import json
import subprocess
import sys
import time
from pathlib import Path

V = Path(__file__).resolve().parent
SEEDED = V / "seeded"


def sh(cmd: list[str], **kw) -> subprocess.CompletedProcess:
    return subprocess.run(cmd, capture_output=True, text=True, **kw)


def repo_clean() -> bool:
    return sh(["git", "-C", "/repo", "status", "--porcelain"]).stdout.strip() == ""


def main() -> int:
    ap = argparse.ArgumentParser()
    ap.add_argument("--only", nargs="*")
    ap.add_argument("--all", action="store_true", help="run every claimed check, not only the targeted one")
    ap.add_argument("--tier", default="quick")
    ap.add_argument("--in-repo", action="store_true",
                    help="apply the patches to /repo itself (the official procedure; do not use while other "
                         "processes import funtracks from /repo/src). Default: a scratch worktree + PYTHONPATH.")
    args = ap.parse_args()
    import os
    if args.in_repo:
        if not repo_clean():
            print("refusing: /repo has uncommitted changes")
            return 2
        tree = "/repo"
        env = dict(os.environ)
    else:
        tree = "/tmp/seed_wt"
        sh(["git", "-C", "/repo", "worktree", "remove", "--force", tree])
        r = sh(["git", "-C", "/repo", "worktree", "add", "--detach", tree, "HEAD"])
        if r.returncode != 0:
            print(r.stderr)
            return 2
        env = dict(os.environ, PYTHONPATH=tree + "/src")
    manifest = json.loads((V / "MANIFEST.json").read_text())
    claimed = [c["property_id"] for c in manifest["checks"]]
    results = {}
    rf = SEEDED / "results.json"
    if rf.exists():
        results = json.loads(rf.read_text())
    for d in sorted(p for p in SEEDED.iterdir() if p.is_dir() and not p.name.startswith("_") and p.name != "prompts"):
        if args.only and d.name not in args.only:
            continue
        meta = json.loads((d / "meta.json").read_text())
        target = meta["property"]
        ap_ = sh(["git", "-C", tree, "apply", str(d / "patch.diff")])
        if ap_.returncode != 0:
            results[d.name] = {"error": "patch does not apply: " + ap_.stderr[:300]}
            continue
        try:
            row = {"property": target, "checks": {}}
            for prop in (claimed if args.all else [target]):
                if prop not in claimed:
                    row["checks"][prop] = {"rc": None, "note": "property not claimed"}
                    continue
                t0 = time.time()
                r = sh([str(V / "check"), prop, "--tier", args.tier], cwd=V, env=env)
                viol = [l for l in r.stdout.splitlines() if l.startswith("VIOLATION")]
                row["checks"][prop] = {"rc": r.returncode, "violations": viol[:4],
                                       "no_failing_input": any("no-failing-input-found" in v for v in viol),
                                       "wall_s": round(time.time() - t0, 1)}
            row["caught"] = row["checks"].get(target, {}).get("rc") == 1
            results[d.name] = row
            print(d.name, target, "CAUGHT" if row["caught"] else "MISSED", row["checks"].get(target))
        finally:
            sh(["git", "-C", tree, "checkout", "--", "."])
            sh(["git", "-C", tree, "clean", "-fdq", "src"])
    if not args.in_repo:
        sh(["git", "-C", "/repo", "worktree", "remove", "--force", tree])
    rf.write_text(json.dumps(results, indent=1))
    lines = ["# Seeded changes vs. checks", "",
             "| seeded change | property | targeted check | with concrete replay | other checks that fire |", "|---|---|---|---|---|"]
    for k, row in sorted(results.items()):
        if "error" in row:
            lines.append(f"| {k} | - | {row['error']} | | |")
            continue
        tc = row["checks"].get(row["property"], {})
        others = [p for p, c in row["checks"].items() if p != row["property"] and c.get("rc") == 1]
        lines.append(f"| {k} | {row['property']} | {'caught' if row.get('caught') else 'MISSED'} (rc={tc.get('rc')}, {tc.get('wall_s')}s) | "
                     f"{'no' if tc.get('no_failing_input') else ('yes' if row.get('caught') else '-')} | {', '.join(others)} |")
    (SEEDED / "RESULTS.md").write_text("\n".join(lines) + "\n")
    return 0


if __name__ == "__main__":
    sys.exit(main())
