#!/venv/bin/python
"""False-alarm test: apply each behaviour-preserving refactoring under refactorings/<id>/patch.diff to a
scratch worktree of /repo HEAD and run every claimed quick check against it (PYTHONPATH=<worktree>/src).
Every check must exit 0.  Writes refactorings/RESULTS.md."""
import json, os, subprocess, sys, time
from pathlib import Path
V = Path(__file__).resolve().parent
R = V / "refactorings"
def sh(cmd, **kw): return subprocess.run(cmd, capture_output=True, text=True, **kw)
tree = "/tmp/refac_wt"
sh(["git", "-C", "/repo", "worktree", "remove", "--force", tree])
assert sh(["git", "-C", "/repo", "worktree", "add", "--detach", tree, "HEAD"]).returncode == 0
claimed = [c["property_id"] for c in json.loads((V / "MANIFEST.json").read_text())["checks"]]
only = sys.argv[1:]
rows = []
for d in sorted(p for p in R.iterdir() if p.is_dir()):
    if only and d.name not in only: continue
    a = sh(["git", "-C", tree, "apply", str(d / "patch.diff")])
    if a.returncode != 0:
        rows.append((d.name, "patch does not apply", [])); continue
    bad = []
    t0 = time.time()
    for p in claimed:
        r = sh([str(V / "check"), p, "--tier", "quick"], cwd=V, env=dict(os.environ, PYTHONPATH=tree + "/src"))
        if r.returncode != 0:
            bad.append((p, r.returncode, [l for l in r.stdout.splitlines() if l.startswith("VIOLATION")][:2]))
    rows.append((d.name, f"{len(claimed) - len(bad)}/{len(claimed)} checks quiet ({time.time() - t0:.0f}s)", bad))
    print(rows[-1])
    sh(["git", "-C", tree, "checkout", "--", "."])
sh(["git", "-C", "/repo", "worktree", "remove", "--force", tree])
out = ["# Behaviour-preserving refactorings vs. checks (false-alarm test)", "", "| refactoring | result | alarms |", "|---|---|---|"]
for n, res, bad in rows:
    out.append(f"| {n} | {res} | {'; '.join(f'{p} rc={rc} {v}' for p, rc, v in bad) or '-'} |")
(R / "RESULTS.md").write_text("\n".join(out) + "\n")
